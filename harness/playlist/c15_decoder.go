//go:build verif

package playlist

// C15 (first half) — Unmarshal is total (no panic on arbitrary bytes) and, when it succeeds,
// the result has the structure callers index into without checking, and can be marshaled again.

var verifMediaTags = []string{
	"#EXT-X-VERSION:", "#EXT-X-INDEPENDENT-SEGMENTS", "#EXT-X-START:", "#EXT-X-ALLOW-CACHE:", "#EXT-X-TARGETDURATION:",
	"#EXT-X-SERVER-CONTROL:", "#EXT-X-PART-INF:", "#EXT-X-MEDIA-SEQUENCE:", "#EXT-X-DISCONTINUITY-SEQUENCE:", "#EXT-X-PLAYLIST-TYPE:",
	"#EXT-X-MAP:", "#EXT-X-KEY:", "#EXT-X-SKIP:", "#EXT-X-PROGRAM-DATE-TIME:", "#EXT-X-BITRATE:", "#EXTINF:", "#EXT-X-BYTERANGE:",
	"#EXT-X-PART:", "#EXT-X-PRELOAD-HINT:", "", // "" = a raw line (URI line or anything else)
	// attribute tags again, with a valid prefix so that the arbitrary bytes land deeper in the attribute parsers
	"#EXT-X-PART:DURATION=1.0,URI=\"p\",", "#EXT-X-MAP:URI=\"i\",BYTERANGE=", "#EXT-X-PRELOAD-HINT:TYPE=PART,URI=\"h\",BYTERANGE-",
	"#EXT-X-KEY:METHOD=", "#EXT-X-SERVER-CONTROL:CAN-BLOCK-RELOAD=YES,PART-HOLD-BACK=", "#EXT-X-SKIP:SKIPPED-SEGMENTS=",
	"#EXT-X-BYTERANGE:1@", "#EXTINF:1.0", "#EXT-X-PART:URI=\"",
}

func verifCheckMediaStructure(m *Media) {
	verifAssert("C15", "media-has-segment", len(m.Segments) >= 1)
	verifAssert("C15", "media-targetduration-nonzero", m.TargetDuration != 0)
	for _, s := range m.Segments {
		verifAssert("C15", "segment-uri-nonempty", s.URI != "")
		verifAssert("C15", "segment-duration-nonzero", s.Duration != 0)
		for _, p := range s.Parts {
			verifAssert("C15", "part-uri-and-duration", p.URI != "" && p.Duration != 0)
		}
	}
	for _, p := range m.Parts {
		verifAssert("C15", "part-uri-and-duration", p.URI != "" && p.Duration != 0)
	}
	if m.PartInf != nil {
		verifAssert("C15", "part-target-nonzero", m.PartInf.PartTarget != 0)
	}
	if m.Map != nil {
		verifAssert("C15", "map-uri-nonempty", m.Map.URI != "")
	}
	if m.PreloadHint != nil {
		verifAssert("C15", "hint-uri-nonempty", m.PreloadHint.URI != "")
	}
}

// VerifH_C15_mediaDecoder: a valid frame with one tag followed by L arbitrary bytes.
func VerifH_C15_mediaDecoder() {
	ti := verifChoice("tag", len(verifMediaTags))
	L := verifParam("L", 4)
	tail := verifSymString("tail", L)
	if len(verifMediaTags[ti]) >= 7 && verifMediaTags[ti][:7] == "#EXTINF" {
		for i := 0; i < len(tail); i++ {
			verifAssume(tail[i] < 0x80) // bound: segment titles are ASCII (strings.TrimSpace's Unicode path is not encoded)
		}
	}
	pos := verifChoice("pos", 2) // the arbitrary line before the first segment, or between EXTINF and its URI
	var txt string
	if pos == 0 {
		txt = "#EXTM3U\n#EXT-X-VERSION:7\n#EXT-X-TARGETDURATION:4\n" + verifMediaTags[ti] + tail + "\n#EXTINF:2.0,\nseg.mp4\n"
	} else {
		txt = "#EXTM3U\n#EXT-X-TARGETDURATION:4\n#EXTINF:2.0,\n" + verifMediaTags[ti] + tail + "\nseg.mp4\n#EXT-X-ENDLIST"
	}
	var m Media
	err := m.Unmarshal([]byte(txt))
	if err != nil {
		verifReach("rejected")
		return
	}
	verifReach("accepted")
	verifCheckMediaStructure(&m)
	_, err = m.Marshal()
	verifAssert("C15", "accepted-playlist-marshals", err == nil)
	// the generic entry point must not panic either
	Unmarshal([]byte(txt)) //nolint:errcheck
}

var verifMultiTags = []string{
	"#EXT-X-VERSION:", "#EXT-X-START:", "#EXT-X-STREAM-INF:", "#EXT-X-MEDIA:", "",
	"#EXT-X-STREAM-INF:BANDWIDTH=1,CODECS=\"a\",", "#EXT-X-MEDIA:TYPE=AUDIO,GROUP-ID=\"g\",", "#EXT-X-MEDIA:TYPE=", "#EXT-X-STREAM-INF:BANDWIDTH=",
}

// VerifH_C15_multiDecoder: same for multivariant playlists.
func VerifH_C15_multiDecoder() {
	ti := verifChoice("tag", len(verifMultiTags))
	L := verifParam("L", 4)
	tail := verifSymString("tail", L)
	var txt string
	if verifChoice("pos", 2) == 0 {
		txt = "#EXTM3U\n" + verifMultiTags[ti] + tail + "\n#EXT-X-STREAM-INF:BANDWIDTH=1,CODECS=\"a\"\nv.m3u8\n"
	} else {
		txt = "#EXTM3U\n#EXT-X-VERSION:7\n" + verifMultiTags[ti] + tail
	}
	var m Multivariant
	err := m.Unmarshal([]byte(txt))
	if err != nil {
		verifReach("rejected")
		Unmarshal([]byte(txt)) //nolint:errcheck
		return
	}
	verifReach("accepted")
	verifAssert("C15", "multivariant-has-variant", len(m.Variants) >= 1)
	for _, v := range m.Variants {
		verifAssert("C15", "variant-uri-nonempty", v.URI != "")
	}
	for _, r := range m.Renditions {
		known := r.Type == MultivariantRenditionTypeAudio || r.Type == MultivariantRenditionTypeVideo ||
			r.Type == MultivariantRenditionTypeSubtitles || r.Type == MultivariantRenditionTypeClosedCaptions
		verifAssert("C15", "rendition-type-known-and-group", known && r.GroupID != "")
	}
	_, err = m.Marshal()
	verifAssert("C15", "accepted-playlist-marshals", err == nil)
}
