//go:build verif

package playlist

// C15 (second half) — an independent strict RFC 8216 / 8216bis line grammar, applied to what
// Marshal produces. Written from the RFC, not from the encoder.

func verifIsDigit(c byte) bool { return c >= '0' && c <= '9' }

func verifDecimalInteger(s string) bool {
	if len(s) == 0 || len(s) > 20 {
		return false
	}
	for i := 0; i < len(s); i++ {
		if !verifIsDigit(s[i]) {
			return false
		}
	}
	return true
}

// decimal-floating-point: digits [ "." digits ]; signed variant allows a leading '-'
func verifDecimalFloat(s string, signed bool) bool {
	if signed && len(s) > 0 && s[0] == '-' {
		s = s[1:]
	}
	if len(s) == 0 {
		return false
	}
	dot := -1
	for i := 0; i < len(s); i++ {
		if s[i] == '.' {
			if dot >= 0 {
				return false
			}
			dot = i
		} else if !verifIsDigit(s[i]) {
			return false
		}
	}
	return dot != 0 && dot != len(s)-1
}

func verifHexSequence(s string) bool {
	if len(s) < 3 || s[0] != '0' || (s[1] != 'x' && s[1] != 'X') {
		return false
	}
	for i := 2; i < len(s); i++ {
		c := s[i]
		if !(verifIsDigit(c) || (c >= 'a' && c <= 'f') || (c >= 'A' && c <= 'F')) {
			return false
		}
	}
	return true
}

func verifResolution(s string) bool {
	x := -1
	for i := 0; i < len(s); i++ {
		if s[i] == 'x' {
			x = i
		}
	}
	return x > 0 && verifDecimalInteger(s[:x]) && verifDecimalInteger(s[x+1:])
}

func verifEnumerated(s string) bool {
	if len(s) == 0 {
		return false
	}
	for i := 0; i < len(s); i++ {
		c := s[i]
		if c == '"' || c == ',' || c == ' ' || c == '\t' || c == '\r' || c == '\n' {
			return false
		}
	}
	return true
}

func verifByteRangeText(s string) bool {
	at := -1
	for i := 0; i < len(s); i++ {
		if s[i] == '@' {
			at = i
		}
	}
	if at < 0 {
		return verifDecimalInteger(s)
	}
	return verifDecimalInteger(s[:at]) && verifDecimalInteger(s[at+1:])
}

type verifAttr struct {
	name   string
	val    string // without quotes
	quoted bool
}

// verifAttrList parses a strict attribute-list: NAME=value{,NAME=value}
func verifAttrList(s string) ([]verifAttr, bool) {
	var out []verifAttr
	if len(s) == 0 {
		return nil, false
	}
	i := 0
	for {
		j := i
		for j < len(s) && s[j] != '=' {
			c := s[j]
			if !((c >= 'A' && c <= 'Z') || verifIsDigit(c) || c == '-') {
				return nil, false
			}
			j++
		}
		if j == i || j >= len(s) {
			return nil, false
		}
		a := verifAttr{name: s[i:j]}
		j++
		if j < len(s) && s[j] == '"' {
			k := j + 1
			for k < len(s) && s[k] != '"' {
				if s[k] == '\r' || s[k] == '\n' {
					return nil, false
				}
				k++
			}
			if k >= len(s) {
				return nil, false
			}
			a.val, a.quoted = s[j+1:k], true
			j = k + 1
		} else {
			k := j
			for k < len(s) && s[k] != ',' {
				if s[k] == '"' || s[k] == ' ' {
					return nil, false
				}
				k++
			}
			if k == j {
				return nil, false
			}
			a.val = s[j:k]
			j = k
		}
		for _, o := range out {
			if o.name == a.name {
				return nil, false // an attribute name appears at most once
			}
		}
		out = append(out, a)
		if j == len(s) {
			return out, true
		}
		if s[j] != ',' {
			return nil, false
		}
		i = j + 1
		if i >= len(s) {
			return nil, false // trailing comma
		}
	}
}

// attribute lexical types per tag: q quoted-string, i decimal-integer, f decimal-float,
// s signed decimal-float, e enumerated-string, r resolution, x hexadecimal-sequence, b quoted byte range
var verifAttrTypes = map[string]map[string]byte{
	"#EXT-X-START":          {"TIME-OFFSET": 's', "PRECISE": 'e'},
	"#EXT-X-SERVER-CONTROL": {"CAN-BLOCK-RELOAD": 'e', "PART-HOLD-BACK": 'f', "CAN-SKIP-UNTIL": 'f', "HOLD-BACK": 'f', "CAN-SKIP-DATERANGES": 'e'},
	"#EXT-X-PART-INF":       {"PART-TARGET": 'f'},
	"#EXT-X-MAP":            {"URI": 'q', "BYTERANGE": 'b'},
	"#EXT-X-KEY":            {"METHOD": 'e', "URI": 'q', "IV": 'x', "KEYFORMAT": 'q', "KEYFORMATVERSIONS": 'q'},
	"#EXT-X-SKIP":           {"SKIPPED-SEGMENTS": 'i', "RECENTLY-REMOVED-DATERANGES": 'q'},
	"#EXT-X-PART":           {"URI": 'q', "DURATION": 'f', "INDEPENDENT": 'e', "BYTERANGE": 'b', "GAP": 'e'},
	"#EXT-X-PRELOAD-HINT":   {"TYPE": 'e', "URI": 'q', "BYTERANGE-START": 'i', "BYTERANGE-LENGTH": 'i'},
	"#EXT-X-STREAM-INF": {"BANDWIDTH": 'i', "AVERAGE-BANDWIDTH": 'i', "CODECS": 'q', "RESOLUTION": 'r', "FRAME-RATE": 'f',
		"VIDEO": 'q', "AUDIO": 'q', "SUBTITLES": 'q', "CLOSED-CAPTIONS": 'q'},
	"#EXT-X-MEDIA": {"TYPE": 'e', "GROUP-ID": 'q', "LANGUAGE": 'q', "NAME": 'q', "AUTOSELECT": 'e', "DEFAULT": 'e', "FORCED": 'e',
		"CHANNELS": 'q', "URI": 'q', "INSTREAM-ID": 'q'},
}

var verifRequiredAttrs = map[string][]string{
	"#EXT-X-START": {"TIME-OFFSET"}, "#EXT-X-PART-INF": {"PART-TARGET"}, "#EXT-X-MAP": {"URI"}, "#EXT-X-KEY": {"METHOD"},
	"#EXT-X-SKIP": {"SKIPPED-SEGMENTS"}, "#EXT-X-PART": {"URI", "DURATION"}, "#EXT-X-PRELOAD-HINT": {"TYPE", "URI"},
	"#EXT-X-STREAM-INF": {"BANDWIDTH"}, "#EXT-X-MEDIA": {"TYPE", "GROUP-ID", "NAME"},
}

var verifGrammarWhy string

func verifBad(why string) bool {
	verifGrammarWhy = why
	return false
}

func verifCheckAttrTag(tag, rest string) bool {
	types := verifAttrTypes[tag]
	attrs, ok := verifAttrList(rest)
	if !ok {
		return verifBad(tag + ": malformed attribute-list")
	}
	for _, a := range attrs {
		ty, known := types[a.name]
		if !known {
			continue // unknown attributes must be ignored by clients
		}
		good := false
		switch ty {
		case 'q':
			good = a.quoted
		case 'b':
			if !verifByteRangeText(a.val) {
				return verifBad(tag + ": attribute " + a.name + " is not a byte range n[@o]")
			}
			if !a.quoted {
				return verifBad(tag + ": attribute " + a.name + " must be a quoted-string")
			}
			good = true
		case 'i':
			good = !a.quoted && verifDecimalInteger(a.val)
		case 'f':
			good = !a.quoted && verifDecimalFloat(a.val, false)
		case 's':
			good = !a.quoted && verifDecimalFloat(a.val, true)
		case 'e':
			good = !a.quoted && verifEnumerated(a.val)
		case 'r':
			good = !a.quoted && verifResolution(a.val)
		case 'x':
			good = !a.quoted && verifHexSequence(a.val)
		}
		if !good {
			return verifBad(tag + ": attribute " + a.name + " has the wrong lexical type")
		}
	}
	for _, req := range verifRequiredAttrs[tag] {
		found := false
		for _, a := range attrs {
			if a.name == req {
				found = true
			}
		}
		if !found {
			return verifBad(tag + ": required attribute " + req + " missing")
		}
	}
	return true
}

func verifSplitLines(txt string) []string {
	var lines []string
	start := 0
	for i := 0; i < len(txt); i++ {
		if txt[i] == '\n' {
			l := txt[start:i]
			if len(l) > 0 && l[len(l)-1] == '\r' {
				l = l[:len(l)-1]
			}
			lines = append(lines, l)
			start = i + 1
		}
	}
	if start < len(txt) {
		lines = append(lines, txt[start:])
	}
	return lines
}

func verifTagName(line string) (string, string, bool) {
	for i := 0; i < len(line); i++ {
		if line[i] == ':' {
			return line[:i], line[i+1:], true
		}
	}
	return line, "", false
}

// verifGrammar checks a whole playlist text. media selects the media-playlist tag set.
func verifGrammar(txt string, media bool) bool {
	lines := verifSplitLines(txt)
	if len(lines) == 0 || lines[0] != "#EXTM3U" {
		return verifBad("#EXTM3U must be the first line")
	}
	seen := map[string]int{}
	pendingInf := false    // EXTINF seen, URI line expected
	pendingStream := false // EXT-X-STREAM-INF seen, URI line expected next
	segments := 0
	for _, line := range lines[1:] {
		if line == "" {
			if pendingStream {
				return verifBad("EXT-X-STREAM-INF must be followed by its URI line")
			}
			continue
		}
		if line[0] != '#' {
			// URI line
			if media {
				if !pendingInf {
					return verifBad("URI line without EXTINF")
				}
				pendingInf = false
				segments++
			} else {
				if !pendingStream {
					return verifBad("URI line without EXT-X-STREAM-INF")
				}
				pendingStream = false
			}
			continue
		}
		if pendingStream {
			return verifBad("EXT-X-STREAM-INF must be followed by its URI line")
		}
		if len(line) < 4 || line[1] != 'E' || line[2] != 'X' || line[3] != 'T' {
			continue // comment
		}
		tag, rest, hasVal := verifTagName(line)
		seen[tag]++
		if _, isAttr := verifAttrTypes[tag]; isAttr {
			if !hasVal || !verifCheckAttrTag(tag, rest) {
				if verifGrammarWhy == "" {
					verifGrammarWhy = tag + ": attribute-list missing"
				}
				return false
			}
		}
		mediaOnly := false
		switch tag {
		case "#EXT-X-VERSION":
			if !hasVal || !verifDecimalInteger(rest) || seen[tag] > 1 {
				return verifBad("EXT-X-VERSION")
			}
		case "#EXT-X-INDEPENDENT-SEGMENTS":
			if hasVal || seen[tag] > 1 {
				return verifBad("EXT-X-INDEPENDENT-SEGMENTS")
			}
		case "#EXT-X-START":
			if seen[tag] > 1 {
				return verifBad("EXT-X-START more than once")
			}
		case "#EXT-X-TARGETDURATION", "#EXT-X-MEDIA-SEQUENCE", "#EXT-X-DISCONTINUITY-SEQUENCE":
			mediaOnly = true
			if !hasVal || !verifDecimalInteger(rest) || seen[tag] > 1 {
				return verifBad(tag)
			}
			if tag != "#EXT-X-TARGETDURATION" && segments > 0 {
				return verifBad(tag + " must precede the first segment")
			}
		case "#EXT-X-ALLOW-CACHE":
			mediaOnly = true
			if rest != "YES" && rest != "NO" {
				return verifBad(tag)
			}
		case "#EXT-X-PLAYLIST-TYPE":
			mediaOnly = true
			if (rest != "EVENT" && rest != "VOD") || seen[tag] > 1 {
				return verifBad(tag)
			}
		case "#EXT-X-SERVER-CONTROL", "#EXT-X-PART-INF", "#EXT-X-SKIP":
			mediaOnly = true
			if seen[tag] > 1 {
				return verifBad(tag + " more than once")
			}
		case "#EXT-X-MAP", "#EXT-X-KEY", "#EXT-X-PART", "#EXT-X-PRELOAD-HINT":
			mediaOnly = true
		case "#EXT-X-DISCONTINUITY", "#EXT-X-GAP":
			mediaOnly = true
			if hasVal {
				return verifBad(tag)
			}
		case "#EXT-X-ENDLIST":
			mediaOnly = true
			if hasVal || seen[tag] > 1 {
				return verifBad(tag)
			}
		case "#EXT-X-PROGRAM-DATE-TIME":
			mediaOnly = true
			// date-time-msec: YYYY-MM-DDThh:mm:ss[.fff](Z|±hh:mm)
			if len(rest) < 20 || rest[4] != '-' || rest[7] != '-' || rest[10] != 'T' || rest[13] != ':' || rest[16] != ':' {
				return verifBad(tag)
			}
		case "#EXT-X-BITRATE":
			mediaOnly = true
			if !verifDecimalInteger(rest) {
				return verifBad(tag)
			}
		case "#EXTINF":
			mediaOnly = true
			comma := -1
			for i := 0; i < len(rest); i++ {
				if rest[i] == ',' {
					comma = i
					break
				}
			}
			if comma < 0 || !verifDecimalFloat(rest[:comma], false) && !verifDecimalInteger(rest[:comma]) || pendingInf {
				return verifBad("EXTINF")
			}
			pendingInf = true
		case "#EXT-X-BYTERANGE":
			mediaOnly = true
			if !pendingInf || !verifByteRangeText(rest) {
				return verifBad("EXT-X-BYTERANGE must follow EXTINF and be n[@o]")
			}
		case "#EXT-X-STREAM-INF":
			if media {
				return verifBad("EXT-X-STREAM-INF in a media playlist")
			}
			pendingStream = true
		case "#EXT-X-MEDIA":
			if media {
				return verifBad("EXT-X-MEDIA in a media playlist")
			}
		}
		if mediaOnly && !media {
			return verifBad(tag + " in a multivariant playlist")
		}
	}
	if pendingInf || pendingStream {
		return verifBad("dangling EXTINF / EXT-X-STREAM-INF")
	}
	if media && seen["#EXT-X-TARGETDURATION"] != 1 {
		return verifBad("EXT-X-TARGETDURATION required exactly once")
	}
	return true
}
