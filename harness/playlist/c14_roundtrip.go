//go:build verif

package playlist

// C14 — Marshal/Unmarshal round-trips every field; Marshal is a fixpoint; syntactic variants decode equal.

import (
	"strings"
	"time"
)

func verifMaxInt() int64 { return int64(verifParam("MAXINT", 999999)) }

// verifStr: a string of 0..maxLen arbitrary bytes that are legal inside the given context
// (no line breaks; no double quote for quoted attribute values; no comma for unquoted ones).
func verifStr(name string, maxLen int, quoted bool) string {
	n := verifChoice(name+"len", maxLen+1)
	s := verifSymString(name, n)
	for i := 0; i < len(s); i++ {
		c := s[i]
		verifAssume(c != '\n' && c != '\r' && c < 0x80) // bound: ASCII text
		if quoted {
			verifAssume(c != '"')
		} else {
			verifAssume(c != ',' && c != '"' && c != ' ')
		}
	}
	return s
}

func verifHexStr(name string, maxLen int) string {
	n := verifChoice(name+"len", maxLen+1)
	s := verifSymString(name, n)
	for i := 0; i < len(s); i++ {
		c := s[i]
		verifAssume((c >= '0' && c <= '9') || (c >= 'a' && c <= 'f') || (c >= 'A' && c <= 'F'))
	}
	return s
}

func verifDurEq(a, b time.Duration) bool {
	d := a - b
	return d > -10*time.Microsecond && d < 10*time.Microsecond
}

func verifU64PtrEq(a, b *uint64) bool {
	if a == nil || b == nil {
		return a == nil && b == nil
	}
	return *a == *b
}

func verifIntPtrEq(a, b *int) bool {
	if a == nil || b == nil {
		return a == nil && b == nil
	}
	return *a == *b
}

func verifStrPtrEq(a, b *string) bool {
	if a == nil || b == nil {
		return a == nil && b == nil
	}
	return *a == *b
}

func verifDurPtrEq(a, b *time.Duration) bool {
	if a == nil || b == nil {
		return a == nil && b == nil
	}
	return verifDurEq(*a, *b)
}

func verifPartEq(a, b *MediaPart) bool {
	return verifDurEq(a.Duration, b.Duration) && a.URI == b.URI && a.Independent == b.Independent && a.Gap == b.Gap &&
		verifU64PtrEq(a.ByteRangeLength, b.ByteRangeLength) && verifU64PtrEq(a.ByteRangeStart, b.ByteRangeStart)
}

func verifKeyEq(a, b *MediaKey) bool {
	if a == nil || b == nil {
		return a == nil && b == nil
	}
	return a.Method == b.Method && a.URI == b.URI && a.IV == b.IV && a.KeyFormat == b.KeyFormat && a.KeyFormatVersions == b.KeyFormatVersions
}

// verifMediaEq asserts field-wise equality of two media playlists (label prefix = what is being compared).
func verifMediaEq(tag string, a, b *Media) {
	verifAssert("C14", tag+":version", a.Version == b.Version)
	verifAssert("C14", tag+":independent-segments", a.IndependentSegments == b.IndependentSegments)
	verifAssert("C14", tag+":start", (a.Start == nil) == (b.Start == nil) && (a.Start == nil || verifDurEq(a.Start.TimeOffset, b.Start.TimeOffset)))
	verifAssert("C14", tag+":allow-cache", (a.AllowCache == nil) == (b.AllowCache == nil) && (a.AllowCache == nil || *a.AllowCache == *b.AllowCache))
	verifAssert("C14", tag+":targetduration", a.TargetDuration == b.TargetDuration)
	verifAssert("C14", tag+":media-sequence", a.MediaSequence == b.MediaSequence)
	verifAssert("C14", tag+":discontinuity-sequence", verifIntPtrEq(a.DiscontinuitySequence, b.DiscontinuitySequence))
	verifAssert("C14", tag+":playlist-type", (a.PlaylistType == nil) == (b.PlaylistType == nil) && (a.PlaylistType == nil || *a.PlaylistType == *b.PlaylistType))
	verifAssert("C14", tag+":endlist", a.Endlist == b.Endlist)
	verifAssert("C14", tag+":server-control", (a.ServerControl == nil) == (b.ServerControl == nil) && (a.ServerControl == nil ||
		a.ServerControl.CanBlockReload == b.ServerControl.CanBlockReload && verifDurPtrEq(a.ServerControl.PartHoldBack, b.ServerControl.PartHoldBack) &&
			verifDurPtrEq(a.ServerControl.CanSkipUntil, b.ServerControl.CanSkipUntil)))
	verifAssert("C14", tag+":part-inf", (a.PartInf == nil) == (b.PartInf == nil) && (a.PartInf == nil || verifDurEq(a.PartInf.PartTarget, b.PartInf.PartTarget)))
	verifAssert("C14", tag+":map", (a.Map == nil) == (b.Map == nil) && (a.Map == nil || a.Map.URI == b.Map.URI &&
		verifU64PtrEq(a.Map.ByteRangeLength, b.Map.ByteRangeLength) && verifU64PtrEq(a.Map.ByteRangeStart, b.Map.ByteRangeStart)))
	verifAssert("C14", tag+":skip", (a.Skip == nil) == (b.Skip == nil) && (a.Skip == nil || a.Skip.SkippedSegments == b.Skip.SkippedSegments))
	verifAssert("C14", tag+":preload-hint", (a.PreloadHint == nil) == (b.PreloadHint == nil) && (a.PreloadHint == nil ||
		a.PreloadHint.URI == b.PreloadHint.URI && a.PreloadHint.ByteRangeStart == b.PreloadHint.ByteRangeStart &&
			verifU64PtrEq(a.PreloadHint.ByteRangeLength, b.PreloadHint.ByteRangeLength)))
	verifAssert("C14", tag+":segment-count", len(a.Segments) == len(b.Segments))
	if len(a.Segments) == len(b.Segments) {
		for i := range a.Segments {
			x, y := a.Segments[i], b.Segments[i]
			verifAssert("C14", tag+":segment-duration", verifDurEq(x.Duration, y.Duration))
			verifAssert("C14", tag+":segment-title-uri", x.Title == y.Title && x.URI == y.URI)
			verifAssert("C14", tag+":segment-flags", x.Discontinuity == y.Discontinuity && x.Gap == y.Gap)
			verifAssert("C14", tag+":segment-datetime", (x.DateTime == nil) == (y.DateTime == nil) &&
				(x.DateTime == nil || (x.DateTime.Sub(*y.DateTime) < time.Millisecond && y.DateTime.Sub(*x.DateTime) < time.Millisecond)))
			verifAssert("C14", tag+":segment-bitrate", verifIntPtrEq(x.Bitrate, y.Bitrate))
			verifAssert("C14", tag+":segment-key", verifKeyEq(x.Key, y.Key))
			verifAssert("C14", tag+":segment-byterange", verifU64PtrEq(x.ByteRangeLength, y.ByteRangeLength) && verifU64PtrEq(x.ByteRangeStart, y.ByteRangeStart))
			verifAssert("C14", tag+":segment-part-count", len(x.Parts) == len(y.Parts))
			if len(x.Parts) == len(y.Parts) {
				for j := range x.Parts {
					verifAssert("C14", tag+":segment-part", verifPartEq(x.Parts[j], y.Parts[j]))
				}
			}
		}
	}
	verifAssert("C14", tag+":open-part-count", len(a.Parts) == len(b.Parts))
	if len(a.Parts) == len(b.Parts) {
		for j := range a.Parts {
			verifAssert("C14", tag+":open-part", verifPartEq(a.Parts[j], b.Parts[j]))
		}
	}
}

// verifMediaRoundTrip: Unmarshal(Marshal(p)) == p, Marshal fixpoint, kind detection, syntactic variants.
func verifMediaRoundTrip(p *Media) {
	txt, err := p.Marshal()
	verifAssert("C14", "marshal-succeeds", err == nil)
	if verifProp("C15") {
		verifGrammarWhy = ""
		ok := verifGrammar(string(txt), true)
		verifAssert("C15", "marshal-output-grammatical "+verifGrammarWhy, ok)
	}
	var q Media
	err = q.Unmarshal(txt)
	verifAssert("C14", "unmarshal-of-marshal-succeeds", err == nil)
	if err != nil {
		return
	}
	verifMediaEq("roundtrip", p, &q)
	txt2, _ := q.Marshal()
	verifAssert("C14", "marshal-fixpoint", string(txt2) == string(txt))
	if verifParam("VARIANTS", 1) == 1 {
		// playlist.Unmarshal picks the media kind
		pl, err := Unmarshal(txt)
		_, isMedia := pl.(*Media)
		verifAssert("C14", "kind-detection", err == nil && isMedia)
		// CRLF line ends + unknown tag + missing trailing newline decode to the same value
		v := strings.ReplaceAll(string(txt), "\n", "\r\n")
		v = strings.Replace(v, "#EXTM3U\r\n", "#EXTM3U\r\n#EXT-X-UNKNOWN-TAG:FOO=1,BAR=\"x\"\r\n", 1)
		v = strings.TrimSuffix(v, "\r\n")
		var q2 Media
		err = q2.Unmarshal([]byte(v))
		verifAssert("C14", "variant-decodes", err == nil)
		if err == nil {
			verifMediaEq("variant", &q, &q2)
		}
	}
	verifReach("roundtrip-done")
}

func verifBaseSegment() *MediaSegment {
	return &MediaSegment{Duration: 2 * time.Second, URI: "seg1.mp4"}
}

func verifOptU64(name string) *uint64 {
	if verifBool(name + "present") {
		v := verifRangeU64(name, 0, uint64(verifMaxInt()))
		return &v
	}
	return nil
}

// verifOptU64Ext: absent, symbolic in [0, MAXINT], or one of the extremes of the uint64 range.
func verifOptU64Ext(name string) *uint64 {
	switch verifChoice(name+"kind", 3) {
	case 0:
		return nil
	case 1:
		v := verifRangeU64(name, 0, uint64(verifMaxInt()))
		return &v
	}
	v := []uint64{9223372036854775807, 9223372036854775808, 18446744073709551615}[verifChoice(name+"extreme", 3)]
	return &v
}

// VerifH_C14_mediaHeader: playlist-level tags.
func VerifH_C14_mediaHeader() {
	p := &Media{
		Version:        int(verifRangeI64("version", 1, 10)),
		TargetDuration: int(verifRangeI64("targetduration", 1, verifMaxInt())),
		MediaSequence:  int(verifRangeI64("mediasequence", 0, verifMaxInt())),
		Segments:       []*MediaSegment{verifBaseSegment()},
	}
	switch verifChoice("focus", 4) {
	case 0:
		p.IndependentSegments = verifBool("indep")
		p.Endlist = verifBool("endlist")
		if verifBool("allowcachepresent") {
			v := verifBool("allowcache")
			p.AllowCache = &v
		}
	case 1:
		if verifBool("discseqpresent") {
			v := int(verifRangeI64("discseq", 0, verifMaxInt()))
			p.DiscontinuitySequence = &v
		}
		switch verifChoice("pltype", 3) {
		case 1:
			v := MediaPlaylistType(MediaPlaylistTypeEvent)
			p.PlaylistType = &v
		case 2:
			v := MediaPlaylistType(MediaPlaylistTypeVOD)
			p.PlaylistType = &v
		}
	case 2:
		if verifBool("startpresent") {
			p.Start = &MediaStart{TimeOffset: []time.Duration{time.Second, -1500 * time.Millisecond, 10 * time.Microsecond}[verifChoice("startoff", 3)]}
		}
		if verifBool("skippresent") {
			p.Skip = &MediaSkip{SkippedSegments: int(verifRangeI64("skipped", 0, verifMaxInt()))}
		}
	case 3:
		if verifBool("scpresent") {
			sc := &MediaServerControl{CanBlockReload: verifBool("canblock")}
			if verifBool("phbpresent") {
				v := []time.Duration{2500 * time.Millisecond, 10 * time.Microsecond}[verifChoice("phb", 2)]
				sc.PartHoldBack = &v
			}
			if verifBool("csupresent") {
				v := []time.Duration{12 * time.Second, 36*time.Second + 10*time.Microsecond}[verifChoice("csu", 2)]
				sc.CanSkipUntil = &v
			}
			// a server-control tag without any attribute is not a meaningful value
			verifAssume(sc.CanBlockReload || sc.PartHoldBack != nil || sc.CanSkipUntil != nil)
			p.ServerControl = sc
		}
		if verifBool("partinfpresent") {
			p.PartInf = &MediaPartInf{PartTarget: []time.Duration{time.Second, 333330 * time.Microsecond}[verifChoice("parttarget", 2)]}
		}
	}
	verifMediaRoundTrip(p)
}

// VerifH_C14_segment: per-segment tags, two segments.
func VerifH_C14_segment() {
	s := verifBaseSegment()
	s2 := &MediaSegment{Duration: 1500 * time.Millisecond, URI: "seg2.mp4"}
	switch verifChoice("focus", 4) {
	case 0:
		s.Title = verifStr("title", 2, true)
		verifAssume(strings.TrimSpace(s.Title) == s.Title) // titles are stored trimmed
		s.URI = "a" + verifStr("uri", 2, true)
		s.Discontinuity = verifBool("disc")
		s.Gap = verifBool("gap")
	case 1:
		s.ByteRangeLength = verifOptU64("brlen")
		if s.ByteRangeLength != nil {
			s.ByteRangeStart = verifOptU64("brstart")
		}
		if verifBool("bitratepresent") {
			v := int(verifRangeI64("bitrate", 0, verifMaxInt()))
			s.Bitrate = &v
		}
	case 2:
		s.Duration = []time.Duration{10 * time.Microsecond, 1234567890 * time.Nanosecond, 3600 * time.Second, 999990 * time.Microsecond}[verifChoice("dur", 4)]
		if verifBool("dtpresent") {
			loc := time.UTC
			if verifBool("zone") {
				loc = time.FixedZone("", -7*3600-1800)
			}
			t := time.Date(2024, 2, 29, 23, 59, 59, []int{0, 999000000, 1000000}[verifChoice("ms", 3)], loc)
			s.DateTime = &t
		}
	case 3:
		k1 := &MediaKey{Method: MediaKeyMethodAES128, URI: "k" + verifStr("keyuri", 2, true), IV: "0x1" + verifHexStr("iv", 2)}
		if verifBool("keyformat") {
			k1.KeyFormat = "f" + verifStr("kf", 1, true)
			k1.KeyFormatVersions = "1/2"
		}
		s.Key = k1
		switch verifChoice("key2", 4) {
		case 3: // key rotation that changes the IV only
			s2.Key = &MediaKey{Method: k1.Method, URI: k1.URI, IV: "0x2" + verifHexStr("iv2", 1), KeyFormat: k1.KeyFormat, KeyFormatVersions: k1.KeyFormatVersions}
		case 0:
			s2.Key = k1
		case 1:
			s2.Key = &MediaKey{Method: MediaKeyMethodSampleAES, URI: "other"}
		case 2:
			s2.Key = &MediaKey{Method: MediaKeyMethodNone}
		}
	}
	p := &Media{Version: 7, TargetDuration: 4, Segments: []*MediaSegment{s, s2}}
	verifMediaRoundTrip(p)
}

// VerifH_C14_parts: EXT-X-PART under a segment and at the tail, EXT-X-MAP, EXT-X-PRELOAD-HINT.
func VerifH_C14_parts() {
	s := verifBaseSegment()
	p := &Media{Version: 9, TargetDuration: 2, Segments: []*MediaSegment{s}, PartInf: &MediaPartInf{PartTarget: time.Second}}
	base := func() *MediaPart { return &MediaPart{Duration: time.Second, URI: "part.mp4"} }
	switch verifChoice("focus", 6) {
	case 0: // part under a segment: duration, URI, flags
		pt := base()
		pt.Duration = []time.Duration{time.Second, 333330 * time.Microsecond, 10 * time.Microsecond}[verifChoice("dur", 3)]
		pt.URI = "p" + verifStr("uri", 2, true)
		pt.Independent = verifBool("indep")
		pt.Gap = verifBool("gap")
		s.Parts = []*MediaPart{pt, base()}
	case 1: // part byte ranges: symbolic below MAXINT, plus the extremes of the uint64 range (concrete)
		pt := base()
		pt.ByteRangeLength = verifOptU64Ext("brlen")
		if pt.ByteRangeLength != nil {
			pt.ByteRangeStart = verifOptU64Ext("brstart")
		}
		pt.Independent = verifBool("indep")
		s.Parts = []*MediaPart{pt}
	case 2: // parts of the open segment + hint URI
		pt := base()
		pt.Independent = verifBool("indep")
		pt.Gap = verifBool("gap")
		p.Parts = []*MediaPart{pt}
		if verifBool("second") {
			p.Parts = append(p.Parts, base())
		}
		p.PreloadHint = &MediaPreloadHint{URI: "h" + verifStr("hinturi", 2, true)}
	case 3: // hint byte range
		p.PreloadHint = &MediaPreloadHint{URI: "hint.mp4"}
		if verifBool("hintstart") {
			p.PreloadHint.ByteRangeStart = verifRangeU64("hintstartv", 0, uint64(verifMaxInt()))
		}
		p.PreloadHint.ByteRangeLength = verifOptU64("hintlen")
	case 4: // map
		p.Map = &MediaMap{URI: "i" + verifStr("mapuri", 2, true)}
	case 5:
		p.Map = &MediaMap{URI: "init.mp4"}
		p.Map.ByteRangeLength = verifOptU64("mapbrlen")
		if p.Map.ByteRangeLength != nil {
			p.Map.ByteRangeStart = verifOptU64("mapbrstart")
		}
	}
	verifMediaRoundTrip(p)
}

// ---------- multivariant ----------

func verifMultiEq(tag string, a, b *Multivariant) {
	verifAssert("C14", tag+":mv-version", a.Version == b.Version && a.IndependentSegments == b.IndependentSegments)
	verifAssert("C14", tag+":mv-start", (a.Start == nil) == (b.Start == nil) && (a.Start == nil || verifDurEq(a.Start.TimeOffset, b.Start.TimeOffset)))
	verifAssert("C14", tag+":mv-variant-count", len(a.Variants) == len(b.Variants))
	if len(a.Variants) == len(b.Variants) {
		for i := range a.Variants {
			x, y := a.Variants[i], b.Variants[i]
			verifAssert("C14", tag+":variant-bandwidth", x.Bandwidth == y.Bandwidth && verifIntPtrEq(x.AverageBandwidth, y.AverageBandwidth))
			verifAssert("C14", tag+":variant-codecs", strings.Join(x.Codecs, ",") == strings.Join(y.Codecs, ",") && len(x.Codecs) == len(y.Codecs))
			verifAssert("C14", tag+":variant-uri-resolution", x.URI == y.URI && x.Resolution == y.Resolution)
			verifAssert("C14", tag+":variant-framerate", (x.FrameRate == nil) == (y.FrameRate == nil) &&
				(x.FrameRate == nil || (*x.FrameRate-*y.FrameRate < 0.001 && *y.FrameRate-*x.FrameRate < 0.001)))
			verifAssert("C14", tag+":variant-groups", x.Video == y.Video && x.Audio == y.Audio && x.Subtitles == y.Subtitles && x.ClosedCaptions == y.ClosedCaptions)
		}
	}
	verifAssert("C14", tag+":mv-rendition-count", len(a.Renditions) == len(b.Renditions))
	if len(a.Renditions) == len(b.Renditions) {
		for i := range a.Renditions {
			x, y := a.Renditions[i], b.Renditions[i]
			verifAssert("C14", tag+":rendition-type-group", x.Type == y.Type && x.GroupID == y.GroupID)
			verifAssert("C14", tag+":rendition-name-language", x.Name == y.Name && x.Language == y.Language)
			verifAssert("C14", tag+":rendition-flags", x.Autoselect == y.Autoselect && x.Default == y.Default && x.Forced == y.Forced)
			verifAssert("C14", tag+":rendition-optionals", verifStrPtrEq(x.Channels, y.Channels) && verifStrPtrEq(x.URI, y.URI) && verifStrPtrEq(x.InStreamID, y.InStreamID))
		}
	}
}

func verifMultiRoundTrip(p *Multivariant) {
	txt, err := p.Marshal()
	verifAssert("C14", "marshal-succeeds", err == nil)
	if verifProp("C15") {
		verifGrammarWhy = ""
		ok := verifGrammar(string(txt), false)
		verifAssert("C15", "marshal-output-grammatical "+verifGrammarWhy, ok)
	}
	var q Multivariant
	err = q.Unmarshal(txt)
	verifAssert("C14", "unmarshal-of-marshal-succeeds", err == nil)
	if err != nil {
		return
	}
	verifMultiEq("roundtrip", p, &q)
	txt2, _ := q.Marshal()
	verifAssert("C14", "marshal-fixpoint", string(txt2) == string(txt))
	if verifParam("VARIANTS", 1) == 1 {
		pl, err := Unmarshal(txt)
		_, isMV := pl.(*Multivariant)
		verifAssert("C14", "kind-detection", err == nil && isMV)
		v := strings.ReplaceAll(string(txt), "\n", "\r\n")
		v = strings.Replace(v, "#EXTM3U\r\n", "#EXTM3U\r\n#EXT-X-UNKNOWN-TAG:FOO=1\r\n", 1)
		v = strings.TrimSuffix(v, "\r\n")
		var q2 Multivariant
		err = q2.Unmarshal([]byte(v))
		verifAssert("C14", "variant-decodes", err == nil)
		if err == nil {
			verifMultiEq("variant", &q, &q2)
		}
	}
	verifReach("roundtrip-done")
}

// VerifH_C14_multivariant: variants and renditions of every type.
func VerifH_C14_multivariant() {
	v := &MultivariantVariant{Bandwidth: 1000, Codecs: []string{"avc1.42c028"}, URI: "video.m3u8"}
	p := &Multivariant{Version: 9, Variants: []*MultivariantVariant{v}}
	switch verifChoice("focus", 8) {
	case 0:
		p.Version = int(verifRangeI64("version", 1, 10))
		p.IndependentSegments = verifBool("indep")
		if verifBool("startpresent") {
			p.Start = &MultivariantStart{TimeOffset: 1500 * time.Millisecond}
		}
	case 1:
		v.Bandwidth = int(verifRangeI64("bandwidth", 0, verifMaxInt()))
		if verifBool("avgpresent") {
			a := int(verifRangeI64("avg", 0, verifMaxInt()))
			v.AverageBandwidth = &a
		}
		if verifBool("twocodecs") {
			v.Codecs = []string{"avc1.42c028", "mp4a.40.2"}
		}
	case 2:
		v.URI = "v" + verifStr("uri", 2, true)
		if verifBool("respresent") {
			v.Resolution = "1920x1080"
		}
		if verifBool("frpresent") {
			f := []float64{30, 29.97, 59.94}[verifChoice("fr", 3)]
			v.FrameRate = &f
		}
	case 3:
		v.Video = verifStr("video", 1, true)
		v.Audio = verifStr("audio", 1, true)
	case 4:
		v.Subtitles = verifStr("subs", 1, true)
		v.ClosedCaptions = verifStr("cc", 1, true)
	case 5:
		r := &MultivariantRendition{Type: MultivariantRenditionTypeAudio, GroupID: "g" + verifStr("group", 1, true)}
		r.Name = "n" + verifStr("name", 2, true) // NAME is a required attribute
		r.Language = verifStr("lang", 1, true)
		p.Renditions = []*MultivariantRendition{r}
		v.Audio = "g"
	case 6:
		r := &MultivariantRendition{Type: MultivariantRenditionTypeAudio, GroupID: "aud", Name: "n"}
		r.Autoselect = verifBool("autoselect")
		r.Default = verifBool("default")
		r.Forced = verifBool("forced")
		if verifBool("channels") {
			c := "2"
			r.Channels = &c
		}
		if verifBool("uripresent") {
			u := "a" + verifStr("ruri", 1, true)
			r.URI = &u
		}
		p.Renditions = []*MultivariantRendition{r}
		v.Audio = "aud"
	case 7:
		u := "subs.m3u8"
		id := "CC1"
		p.Renditions = []*MultivariantRendition{
			{Type: MultivariantRenditionTypeVideo, GroupID: "v", Name: "alt"},
			{Type: MultivariantRenditionTypeSubtitles, GroupID: "s", Name: "en", URI: &u, Forced: verifBool("forced")},
			{Type: MultivariantRenditionTypeClosedCaptions, GroupID: "c", Name: "cc", InStreamID: &id},
		}
		v2 := &MultivariantVariant{Bandwidth: 1, Codecs: []string{"avc1.42c028"}, URI: "second.m3u8"}
		p.Variants = append(p.Variants, v2)
	}
	verifMultiRoundTrip(p)
}
