//go:build verif

package VERIFPKG

// In-harness file system standing in for the OS in the symbolic build (symgo redirects the named
// os functions here). Contract modelled: Create truncates/creates, Open fails on a missing name,
// WriteAt zero-fills a gap, reads past the end are short (io.EOF), Remove unlinks the name while
// already opened handles keep working (POSIX), Close invalidates the handle.
// Natively these stubs are unused: the real OS runs (in a temporary directory).

import (
	"io"
	"os"
)

//verif:stub os.Create verifStub_osCreate
//verif:stub os.Open verifStub_osOpen
//verif:stub os.Remove verifStub_osRemove
//verif:stub (*os.File).WriteAt verifStub_fileWriteAt
//verif:stub (*os.File).Write verifStub_fileWrite
//verif:stub (*os.File).Read verifStub_fileRead
//verif:stub (*os.File).ReadAt verifStub_fileReadAt
//verif:stub (*os.File).Seek verifStub_fileSeek
//verif:stub (*os.File).Close verifStub_fileClose
//verif:stub (*os.File).Truncate verifStub_fileTruncate

type verifInode struct {
	data   []byte
	linked bool
	name   string
}

type verifHandle struct {
	ino    *verifInode
	pos    int64
	closed bool
	write  bool
}

var (
	verifFSNames   map[string]*verifInode
	verifFSHandles map[*os.File]*verifHandle
	verifFSCreated []string
	verifFSFailDir string // creating files under this directory fails (invalid folder)
)

func verifFSReset() {
	verifFSNames = map[string]*verifInode{}
	verifFSHandles = map[*os.File]*verifHandle{}
	verifFSCreated = nil
}

type verifFSError struct{ msg string }

func (e *verifFSError) Error() string { return e.msg }

func verifStub_osCreate(name string) (*os.File, error) {
	if verifFSNames == nil {
		verifFSReset()
	}
	if verifFSFailDir != "" && len(name) >= len(verifFSFailDir) && name[:len(verifFSFailDir)] == verifFSFailDir {
		return nil, &verifFSError{"open " + name + ": no such file or directory"}
	}
	ino := &verifInode{linked: true, name: name}
	verifFSNames[name] = ino
	verifFSCreated = append(verifFSCreated, name)
	f := &os.File{}
	verifFSHandles[f] = &verifHandle{ino: ino, write: true}
	return f, nil
}

func verifStub_osOpen(name string) (*os.File, error) {
	if verifFSNames == nil {
		verifFSReset()
	}
	ino, ok := verifFSNames[name]
	if !ok || !ino.linked {
		return nil, &verifFSError{"open " + name + ": no such file or directory"}
	}
	f := &os.File{}
	verifFSHandles[f] = &verifHandle{ino: ino}
	return f, nil
}

func verifStub_osRemove(name string) error {
	if verifFSNames == nil {
		verifFSReset()
	}
	ino, ok := verifFSNames[name]
	if !ok || !ino.linked {
		return &verifFSError{"remove " + name + ": no such file or directory"}
	}
	ino.linked = false
	delete(verifFSNames, name)
	return nil
}

func verifHandleOf(f *os.File) (*verifHandle, error) {
	if f == nil {
		return nil, &verifFSError{"invalid argument"}
	}
	h, ok := verifFSHandles[f]
	if !ok || h.closed {
		return nil, &verifFSError{"file already closed"}
	}
	return h, nil
}

func verifStub_fileWriteAt(f *os.File, b []byte, off int64) (int, error) {
	h, err := verifHandleOf(f)
	if err != nil {
		return 0, err
	}
	if off < 0 {
		return 0, &verifFSError{"negative offset"}
	}
	for int64(len(h.ino.data)) < off {
		h.ino.data = append(h.ino.data, 0)
	}
	for i, c := range b {
		p := off + int64(i)
		if p < int64(len(h.ino.data)) {
			h.ino.data[p] = c
		} else {
			h.ino.data = append(h.ino.data, c)
		}
	}
	return len(b), nil
}

func verifStub_fileWrite(f *os.File, b []byte) (int, error) {
	h, err := verifHandleOf(f)
	if err != nil {
		return 0, err
	}
	n, err := verifStub_fileWriteAt(f, b, h.pos)
	h.pos += int64(n)
	return n, err
}

func verifStub_fileRead(f *os.File, b []byte) (int, error) {
	h, err := verifHandleOf(f)
	if err != nil {
		return 0, err
	}
	if len(b) == 0 {
		return 0, nil
	}
	if h.pos >= int64(len(h.ino.data)) {
		return 0, io.EOF
	}
	n := copy(b, h.ino.data[h.pos:])
	h.pos += int64(n)
	return n, nil
}

func verifStub_fileReadAt(f *os.File, b []byte, off int64) (int, error) {
	h, err := verifHandleOf(f)
	if err != nil {
		return 0, err
	}
	if off < 0 {
		return 0, &verifFSError{"negative offset"}
	}
	if off >= int64(len(h.ino.data)) {
		return 0, io.EOF
	}
	n := copy(b, h.ino.data[off:])
	if n < len(b) {
		return n, io.EOF
	}
	return n, nil
}

func verifStub_fileSeek(f *os.File, offset int64, whence int) (int64, error) {
	h, err := verifHandleOf(f)
	if err != nil {
		return 0, err
	}
	var p int64
	switch whence {
	case io.SeekStart:
		p = offset
	case io.SeekCurrent:
		p = h.pos + offset
	case io.SeekEnd:
		p = int64(len(h.ino.data)) + offset
	}
	if p < 0 {
		return 0, &verifFSError{"negative position"}
	}
	h.pos = p
	return p, nil
}

func verifStub_fileTruncate(f *os.File, size int64) error {
	h, err := verifHandleOf(f)
	if err != nil {
		return err
	}
	if size < 0 {
		return &verifFSError{"invalid argument"}
	}
	for int64(len(h.ino.data)) < size {
		h.ino.data = append(h.ino.data, 0)
	}
	h.ino.data = h.ino.data[:size]
	return nil
}

func verifStub_fileClose(f *os.File) error {
	h, err := verifHandleOf(f)
	if err != nil {
		return err
	}
	h.closed = true
	return nil
}

// verifFSLiveFiles lists the names created through the model that are still linked.
func verifFSLiveFiles() []string {
	var r []string
	for _, n := range verifFSCreated {
		if ino, ok := verifFSNames[n]; ok && ino.linked {
			dup := false
			for _, x := range r {
				if x == n {
					dup = true
				}
			}
			if !dup {
				r = append(r, n)
			}
		}
	}
	return r
}
