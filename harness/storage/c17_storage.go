//go:build verif

package storage

// C17 — storage returns exactly what was written; RAM and disk are equivalent.

import (
	"bytes"
	"io"
	"os"
	"path/filepath"
)

type vPartModel struct {
	data  []byte // bytes written (a trailing forward seek without a write adds nothing: POSIX-like)
	eager []byte // same, but a forward seek zero-fills immediately (what bytes.Buffer-based writers do)
	pos   int64
}

func (p *vPartModel) write(b []byte) {
	for i, c := range b {
		q := p.pos + int64(i)
		for int64(len(p.data)) < q {
			p.data = append(p.data, 0) // a gap left by a forward seek is zero-filled once written past
		}
		if q < int64(len(p.data)) {
			p.data[q] = c
		} else {
			p.data = append(p.data, c)
		}
	}
	for i, c := range b {
		q := p.pos + int64(i)
		for int64(len(p.eager)) < q {
			p.eager = append(p.eager, 0)
		}
		if q < int64(len(p.eager)) {
			p.eager[q] = c
		} else {
			p.eager = append(p.eager, c)
		}
	}
	p.pos += int64(len(b))
}

// seek returns false if the target is negative (state unchanged).
func (p *vPartModel) seek(off int64, whence int) bool {
	np := off
	if whence == io.SeekCurrent {
		np = p.pos + off
	}
	if np < 0 {
		return false
	}
	p.pos = np
	for int64(len(p.eager)) < np {
		p.eager = append(p.eager, 0)
	}
	return true
}

func verifReadAllBuf(r io.Reader, bufSize int) ([]byte, error) {
	var out []byte
	buf := make([]byte, bufSize)
	for i := 0; i < 64; i++ {
		n, err := r.Read(buf)
		out = append(out, buf[:n]...)
		if err == io.EOF {
			return out, nil
		}
		if err != nil {
			return out, err
		}
		if n == 0 && bufSize == 0 {
			return out, nil
		}
	}
	return out, io.ErrNoProgress
}

var verifTmpDir string

func verifFactories() []Factory {
	var dir string
	if verifSymbolic() {
		verifFSReset()
		dir = "/vfs"
	} else {
		d, err := os.MkdirTemp("", "verif-storage")
		if err != nil {
			panic(err)
		}
		dir = d
	}
	verifTmpDir = dir
	return []Factory{NewFactoryRAM(), NewFactoryDisk(dir)}
}

func verifFileExists(name string) bool {
	if verifSymbolic() {
		ino, ok := verifFSNames[name]
		return ok && ino.linked
	}
	_, err := os.Stat(name)
	return err == nil
}

// VerifH_C17_storage: the same symbolic operation sequence is applied to a RAM-backed file, a
// disk-backed file and a byte-slice model; every observation must agree.
func VerifH_C17_storage() {
	fs := verifFactories()
	names := []string{"ram", "disk"}
	files := make([]File, len(fs))
	for i, f := range fs {
		var err error
		files[i], err = f.NewFile("seg.mp4")
		verifAssert("C17", "newfile-succeeds", err == nil)
		if err != nil {
			return
		}
	}
	nparts := verifChoice("nparts", verifParam("MAXPARTS", 2)+1)
	if mn := verifParam("MINPARTS", 0); nparts < mn {
		nparts = mn
	}
	nops := verifParam("OPS", 3)
	var model []*vPartModel
	parts := make([][]Part, len(fs))
	var early [][]io.ReadCloser // readers opened before Finalize
	early = make([][]io.ReadCloser, len(fs))
	for p := 0; p < nparts; p++ {
		pm := &vPartModel{}
		model = append(model, pm)
		ws := make([]io.WriteSeeker, len(fs))
		for i := range fs {
			part := files[i].NewPart()
			parts[i] = append(parts[i], part)
			ws[i] = part.Writer()
		}
		if p > 0 {
			nops = verifParam("OPS2", 1)
		}
		for o := 0; o < nops; o++ {
			switch verifChoice("op", 4) {
			case 0: // write 0..3 arbitrary bytes
				b := verifSymBytes("data", verifChoice("wlen", verifParam("MAXW", 3)+1))
				for i := range fs {
					n, err := ws[i].Write(b)
					verifAssert("C17", "write-complete", err == nil && n == len(b))
				}
				pm.write(b)
			case 1, 2: // seek from start / current
				whence := io.SeekStart
				if verifChoice("whence", 2) == 1 {
					whence = io.SeekCurrent
				}
				off := verifRangeI64("off", int64(-verifParam("OFFNEG", 2)), int64(verifParam("OFFPOS", 4)))
				ok := pm.seek(off, whence)
				for i := range fs {
					_, err := ws[i].Seek(off, whence)
					verifAssert("C17", "seek-result-"+names[i], (err == nil) == ok)
				}
				if !ok {
					// a rejected seek leaves the part usable; stop this part here (error paths of the
					// two writers are allowed to leave different cursors)
					o = nops
				}
			case 3:
				o = nops // fewer operations
			}
		}
		// a reader opened on the part before Finalize
		for i := range fs {
			r, err := parts[i][p].Reader()
			verifAssert("C17", "part-reader-before-finalize-"+names[i], err == nil)
			if err == nil {
				early[i] = append(early[i], r)
			}
		}
	}
	for i := range fs {
		_, err := files[i].Reader()
		verifAssert("C17", "file-unreadable-before-finalize-"+names[i], err != nil)
	}
	// what was written = the model; a trailing forward seek may or may not count as written zeros,
	// but every observation of a backend must follow one reading and both backends the same one
	var wantL, wantE [][]byte
	var allL, allE []byte
	for _, pm := range model {
		wantL = append(wantL, pm.data)
		allL = append(allL, pm.data...)
		wantE = append(wantE, pm.eager)
		allE = append(allE, pm.eager...)
	}
	okL := []bool{true, true}
	okE := []bool{true, true}
	obs := func(i int, got []byte, l, e []byte) {
		el := bytes.Equal(got, l)
		ee := bytes.Equal(got, e)
		okL[i] = okL[i] && el
		okE[i] = okE[i] && ee
	}
	for i := range fs {
		for p, r := range early[i] {
			got, err := verifReadAllBuf(r, 3)
			verifAssert("C17", "early-part-reader-readable-"+names[i], err == nil)
			obs(i, got, wantL[p], wantE[p])
			r.Close()
		}
	}
	// readers opened after the later parts have been allocated, still before Finalize
	for i := range fs {
		for p := range parts[i] {
			r, err := parts[i][p].Reader()
			verifAssert("C17", "part-reader-before-finalize-"+names[i], err == nil)
			if err != nil {
				continue
			}
			got, err := verifReadAllBuf(r, 3)
			verifAssert("C17", "part-readable-before-finalize-"+names[i], err == nil)
			obs(i, got, wantL[p], wantE[p])
			r.Close()
		}
	}
	for i := range fs {
		files[i].Finalize()
	}
	bufSize := verifChoice("bufsize", verifParam("MAXBUF", 4)+1) // 0..4
	var held []io.ReadCloser
	var heldParts []io.ReadCloser
	var heldPartsOf []int
	for i := range fs {
		sz := files[i].Size()
		sl := sz == uint64(len(allL))
		se := sz == uint64(len(allE))
		okL[i] = okL[i] && sl
		okE[i] = okE[i] && se
		for p := range parts[i] {
			r, err := parts[i][p].Reader()
			verifAssert("C17", "part-reader-after-finalize-"+names[i], err == nil)
			if err != nil {
				continue
			}
			got, err := verifReadAllBuf(r, 1+bufSize)
			verifAssert("C17", "part-readable-"+names[i], err == nil)
			obs(i, got, wantL[p], wantE[p])
			r.Close()
		}
		r, err := files[i].Reader()
		verifAssert("C17", "file-reader-after-finalize-"+names[i], err == nil)
		if err == nil {
			if bufSize == 0 {
				n, err := r.Read(nil)
				verifAssert("C17", "zero-length-read-"+names[i], n == 0 && (err == nil || err == io.EOF))
			}
			got, err := verifReadAllBuf(r, 1+bufSize)
			verifAssert("C17", "file-readable-"+names[i], err == nil)
			obs(i, got, allL, allE)
			r.Close()
		}
		// a reader opened before Remove and used after it
		if r2, err := files[i].Reader(); err == nil {
			held = append(held, r2)
		}
		if len(parts[i]) > 0 {
			if r3, err := parts[i][0].Reader(); err == nil {
				heldParts = append(heldParts, r3)
				heldPartsOf = append(heldPartsOf, i)
			}
		}
	}
	verifAssert("C17", "disk-file-exists-until-remove", verifFileExists(filepath.Join(verifTmpDir, "seg.mp4")))
	for i := range fs {
		files[i].Remove()
	}
	verifAssert("C17", "remove-deletes-disk-file", !verifFileExists(filepath.Join(verifTmpDir, "seg.mp4")))
	for i, r := range held {
		got, err := verifReadAllBuf(r, 2)
		verifAssert("C17", "reader-usable-after-remove-"+names[i%len(names)], err == nil)
		obs(i%len(names), got, allL, allE)
		r.Close()
	}
	for k, r := range heldParts {
		got, err := verifReadAllBuf(r, 2)
		verifAssert("C17", "part-reader-usable-after-remove-"+names[heldPartsOf[k]], err == nil)
		obs(heldPartsOf[k], got, wantL[0], wantE[0])
		r.Close()
	}
	verifAssert("C17", "ram-returns-what-was-written", okL[0] || okE[0])
	verifAssert("C17", "disk-returns-what-was-written", okL[1] || okE[1])
	verifAssert("C17", "ram-and-disk-equivalent", (okL[0] && okL[1]) || (okE[0] && okE[1]))
	if !verifSymbolic() {
		os.RemoveAll(verifTmpDir)
	}
	verifReach("end")
}
