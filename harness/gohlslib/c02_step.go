//go:build verif

package gohlslib

// Step harnesses from an arbitrary segment state (histories longer than the bounded runs).

import (
	"time"
)

// VerifH_C02_tsAudioStep: audio-only MPEG-TS. After the real Start and a first write, the open
// segment is put into an arbitrary state (N writes already counted, arbitrary elapsed media
// time); two more real writes of 1..3 access units each follow. The cut rule of the statement:
// a new segment exactly when >= 100 writes went into the open one and SegmentMinDuration elapsed.
func VerifH_C02_tsAudioStep() {
	verifPartLog, verifInitLog, verifMediaLog, verifMultiLog, verifTSLog = nil, nil, nil, nil, nil
	tr := verifAudioTrack("")
	segMin := time.Duration(verifRangeI64("segmin", int64(time.Millisecond), int64(4*time.Second)))
	m := &Muxer{Variant: MuxerVariantMPEGTS, SegmentCount: 3, SegmentMinDuration: segMin, Tracks: []*Track{tr}, OnEncodeError: func(error) {}}
	if mx := verifParam("SEGMAXSIZE", 0); mx != 0 {
		m.SegmentMaxSize = uint64(verifRangeI64("segmaxsize", 1, int64(mx)))
	}
	err := m.Start()
	verifAssert("*", "start-accepts-configuration", err == nil)
	pts := verifRangeI64("pts0", -441000, 1<<33)
	err = m.WriteMPEG4Audio(tr, verifNTPBase, pts, [][]byte{{0xA0, 0}})
	verifAssume(err == nil)
	seg := m.streams[0].nextSegment.(*muxerSegmentMPEGTS)
	// arbitrary history: N writes so far into the open segment (invariant: the counter equals the number of writes)
	N := int(verifRangeI64("writesSoFar", 1, 300))
	seg.audioAUCount = N
	count := N
	size := uint64(2)
	start := seg.startDTS
	for k := 1; k <= 2; k++ {
		pts += verifRangeI64("adelta", 0, 1<<22)
		n := 1 + verifChoice("naus", 3)
		var aus [][]byte
		for i := 0; i < n; i++ {
			aus = append(aus, []byte{0xA0, byte(k), byte(i)})
		}
		before := m.streams[0].nextSegmentID
		err := m.WriteMPEG4Audio(tr, verifNTPBase.Add(time.Duration(k)*time.Second), pts, aus)
		now := timestampToDuration(pts, tr.ClockRate)
		due := count >= mpegtsSegmentMinAUCount && now-start >= segMin
		if due {
			count, size, start = 0, 0, now
		}
		// size limit: the write that would exceed SegmentMaxSize fails instead of buffering
		wsize := uint64(3 * n)
		if size+wsize > m.SegmentMaxSize {
			verifReach("size-limit")
			verifAssert("C18", "write-exceeding-segmentmaxsize-fails", err != nil)
		} else {
			verifAssert("C18", "write-within-segmentmaxsize-succeeds", err == nil)
			size += wsize
			count++
		}
		after := m.streams[0].nextSegmentID
		if due {
			verifReach("cut")
			verifAssert("C02", "cut-when-due", after == before+1)
		} else {
			verifAssert("C02", "no-cut-unless-due", after == before)
		}
	}
	verifReach("end")
}
