//go:build verif && !verifsym

package gohlslib

import (
	"context"
	"time"
)

// Native replays of the C20 interference counterexamples: real goroutines, the schedule the
// solver found is forced through the verifHook points of client_segment_queue.go.

// VerifN_C20_producer: the consumer's pulls are run exactly inside the window the symbolic
// run found (after the producer released the lock, before it selects).
func VerifN_C20_producer() {
	n0 := 1 + verifChoice("len0", 3)
	n := verifChoice("n", 2)
	E := verifChoice("pulls", 3)
	q, _ := verifMkQueue(n0)
	ctx, cancel := context.WithCancel(context.Background())
	defer cancel()
	fired := false
	verifHookFn = func(p string) {
		if p == "segq:wait:unlocked" && !fired {
			fired = true
			verifHookFn = nil
			for i := 0; i < E && i < n0; i++ {
				q.pull(ctx)
			}
		}
	}
	defer func() { verifHookFn = nil }()
	done := make(chan bool, 1)
	go func() { done <- q.waitUntilSizeIsBelow(ctx, n) }()
	select {
	case ok := <-done:
		verifAssert("C20", "wait-returns-true-without-cancel", ok)
	case <-time.After(500 * time.Millisecond):
		q.mutex.Lock()
		l := len(q.queue)
		q.mutex.Unlock()
		verifAssert("C20", "producer-blocked-implies-backlog-above-n", l > n)
	}
}

// VerifN_C20_consumer: pushes happen inside the consumer's unlocked window.
func VerifN_C20_consumer() {
	n0 := verifChoice("len0", 2)
	E := verifChoice("pushes", 3)
	q, _ := verifMkQueue(n0)
	ctx, cancel := context.WithCancel(context.Background())
	defer cancel()
	fired := false
	pushAll := func() {
		for i := 0; i < E; i++ {
			q.push(&segmentData{})
		}
	}
	verifHookFn = func(p string) {
		if p == "segq:pull:unlocked" && !fired {
			fired = true
			verifHookFn = nil
			pushAll()
		}
	}
	defer func() { verifHookFn = nil }()
	done := make(chan bool, 1)
	go func() { s, ok := q.pull(ctx); done <- ok && s != nil }()
	if n0 > 0 {
		time.Sleep(20 * time.Millisecond)
		pushAll()
	}
	select {
	case ok := <-done:
		verifAssert("C20", "pull-ok", ok)
	case <-time.After(500 * time.Millisecond):
		q.mutex.Lock()
		l := len(q.queue)
		q.mutex.Unlock()
		verifAssert("C20", "consumer-blocked-implies-empty-and-nothing-pushed", l == 0 && n0 == 0 && E == 0)
	}
}

func VerifN_C20_cancel() {
	n0 := verifChoice("len0", 3)
	q, _ := verifMkQueue(n0)
	ctx, cancel := context.WithCancel(context.Background())
	role := verifChoice("role", 2)
	done := make(chan struct{})
	go func() {
		if role == 0 {
			q.waitUntilSizeIsBelow(ctx, 0)
		} else {
			for {
				if _, ok := q.pull(ctx); !ok {
					break
				}
			}
		}
		close(done)
	}()
	time.Sleep(20 * time.Millisecond)
	cancel()
	select {
	case <-done:
		verifAssert("C20", "lock-free-after-cancel", !verifHeld(&q.mutex))
	case <-time.After(500 * time.Millisecond):
		verifFail("C20", "returns-after-cancel")
	}
}
