//go:build verif

package gohlslib

// C16 - the RFC 6381 / AV1-ISOBMFF codecs string of an AV1 track: arbitrary sequence-header fields (symbolically the
// parse result itself, natively a sequence header OBU encoded by the bit writer below and parsed by the real parser)
// through the real codecparams.Marshal and through the multivariant playlist of a real muxer, against the format of
// the AV1 Codec ISO Media File Format Binding, section 5:
//   av01.<profile>.<level:2><tier M|H>.<bitDepth:2>.<monochrome>.<subX><subY><chromaSamplePosition>.<cp:2>.<tc:2>.<mc:2>.<fullRange>

import (
	"github.com/bluenviron/gohlslib/v2/pkg/codecparams"
	"github.com/bluenviron/gohlslib/v2/pkg/codecs"
	"github.com/bluenviron/gohlslib/v2/pkg/playlist"
	"github.com/bluenviron/mediacommon/v2/pkg/codecs/av1"
)

type vBitW struct {
	b []byte
	n int
}

func (w *vBitW) put(v uint64, nbits int) {
	for i := nbits - 1; i >= 0; i-- {
		if w.n%8 == 0 {
			w.b = append(w.b, 0)
		}
		if (v>>uint(i))&1 == 1 {
			w.b[len(w.b)-1] |= 1 << (7 - uint(w.n%8))
		}
		w.n++
	}
}

func vb(b bool) uint64 {
	if b {
		return 1
	}
	return 0
}

func verifTwoDigits(v int) string { return string([]byte{'0' + byte(v/10%10), '0' + byte(v%10)}) }

func VerifH_C16_av1codecs() {
	verifPartLog, verifInitLog, verifMediaLog, verifMultiLog, verifTSLog = nil, nil, nil, nil, nil
	profile := verifChoice("profile", 3)
	level := int(verifRangeI64("level", 0, 31))
	tier := false
	if level > 7 {
		tier = verifBool("tier")
	}
	high := verifBool("highbitdepth")
	twelve := false
	bitDepth := 8
	if high {
		bitDepth = 10
	}
	if profile == 2 && high {
		twelve = verifBool("twelvebit")
		if twelve {
			bitDepth = 12
		}
	}
	mono := false
	if profile != 1 {
		mono = verifBool("mono")
	}
	cdp := verifBool("colordescription")
	cp, tc, mc := 2, 2, 2
	if cdp {
		cp, tc, mc = int(verifRangeI64("cp", 0, 22)), int(verifRangeI64("tc", 0, 22)), int(verifRangeI64("mc", 0, 22))
		verifAssume(!(cp == 1 && tc == 13 && mc == 0)) // the sRGB triple changes the syntax (no color_range bit): not covered
	}
	fullRange := verifBool("colorrange")
	sx, sy, csp := true, true, 0
	switch {
	case mono:
	case profile == 0:
	case profile == 1:
		sx, sy = false, false
	case bitDepth == 12:
		sx = verifBool("subx")
		sy = sx && verifBool("suby")
	default:
		sx, sy = true, false
	}
	if !mono && sx && sy {
		csp = verifChoice("csp", 3)
	}
	var seq []byte
	if verifSymbolic() {
		seq = verifAV1Seq
		verifAV1Fields = &av1.SequenceHeader{SeqProfile: uint8(profile), SeqLevelIdx: []uint8{uint8(level)}, SeqTier: []bool{tier},
			MaxFrameWidthMinus1: 1919, MaxFrameHeightMinus1: 1079,
			ColorConfig: av1.SequenceHeader_ColorConfig{HighBitDepth: high, TwelveBit: twelve, BitDepth: bitDepth, MonoChrome: mono, ColorDescriptionPresentFlag: cdp,
				ColorPrimaries: av1.SequenceHeader_ColorPrimaries(cp), TransferCharacteristics: av1.SequenceHeader_TransferCharacteristics(tc),
				MatrixCoefficients: av1.SequenceHeader_MatrixCoefficients(mc), ColorRange: fullRange, SubsamplingX: sx, SubsamplingY: sy,
				ChromaSamplePosition: av1.SequenceHeader_ChromaSamplePosition(csp)}}
		defer func() { verifAV1Fields = nil }()
	} else {
		w := &vBitW{}
		w.put(uint64(profile), 3)
		w.put(0, 1)  // still_picture
		w.put(0, 1)  // reduced_still_picture_header
		w.put(0, 1)  // timing_info_present_flag
		w.put(0, 1)  // initial_display_delay_present_flag
		w.put(0, 5)  // operating_points_cnt_minus_1
		w.put(0, 12) // operating_point_idc[0]
		w.put(uint64(level), 5)
		if level > 7 {
			w.put(vb(tier), 1)
		}
		w.put(10, 4) // frame_width_bits_minus_1
		w.put(10, 4) // frame_height_bits_minus_1
		w.put(1919, 11)
		w.put(1079, 11)
		w.put(0, 1) // frame_id_numbers_present_flag
		w.put(0, 3) // use_128x128_superblock, enable_filter_intra, enable_intra_edge_filter
		w.put(0, 5) // enable_interintra_compound, masked_compound, warped_motion, dual_filter, order_hint
		w.put(0, 1) // seq_choose_screen_content_tools
		w.put(0, 1) // seq_force_screen_content_tools = 0 (no integer-mv bits follow)
		w.put(0, 3) // enable_superres, enable_cdef, enable_restoration
		w.put(vb(high), 1)
		if profile == 2 && high {
			w.put(vb(twelve), 1)
		}
		if profile != 1 {
			w.put(vb(mono), 1)
		}
		w.put(vb(cdp), 1)
		if cdp {
			w.put(uint64(cp), 8)
			w.put(uint64(tc), 8)
			w.put(uint64(mc), 8)
		}
		w.put(vb(fullRange), 1)
		if !mono {
			if profile == 2 && bitDepth == 12 {
				w.put(vb(sx), 1)
				if sx {
					w.put(vb(sy), 1)
				}
			}
			if sx && sy {
				w.put(uint64(csp), 2)
			}
			w.put(0, 1) // separate_uv_delta_q
		}
		w.put(0, 1) // film_grain_params_present
		w.put(1, 1) // trailing one bit
		seq = append([]byte{1 << 3}, w.b...)
	}
	tierCh := "M"
	if tier {
		tierCh = "H"
	}
	base := "av01." + string([]byte{'0' + byte(profile)}) + "." + verifTwoDigits(level) + tierCh + "." + verifTwoDigits(bitDepth)
	mid := "." + string([]byte{'0' + byte(vb(mono))}) + "." + string([]byte{'0' + byte(vb(sx)), '0' + byte(vb(sy)), '0' + byte(csp)}) + "."
	want := base + mid
	got := codecparams.Marshal(&codecs.AV1{SequenceHeader: seq})
	verifReach("marshalled")
	if cdp {
		want += verifTwoDigits(cp) + "." + verifTwoDigits(tc) + "." + verifTwoDigits(mc) + "." + string([]byte{'0' + byte(vb(fullRange))})
		verifAssert("C16", "av1-codecs-string-matches-sequence-header", got == want)
	} else {
		// no colour description in the header: the optional fields may be omitted altogether, or carry the defaults the
		// binding assumes for omitted fields (what the library emits, pinned by TestMarshal), or the header's "unspecified"
		want += "01.01.01.0"
		unspec := base + mid + "02.02.02." + string([]byte{'0' + byte(vb(fullRange))})
		verifAssert("C16", "av1-codecs-string-matches-sequence-header", got == want || got == base || got == unspec)
		want = got
	}
	// the same through a real muxer's multivariant playlist
	m := &Muxer{Variant: MuxerVariantFMP4, SegmentCount: 3, Tracks: []*Track{{Codec: &codecs.AV1{SequenceHeader: seq}, ClockRate: 90000}}, OnEncodeError: func(error) {}}
	if err := m.Start(); err != nil {
		verifFail("C16", "start-accepts-av1-track")
		return
	}
	m.mutex.Lock()
	buf, err := m.generateMultivariantPlaylist("")
	m.mutex.Unlock()
	verifAssert("C16", "multivariant-generated", err == nil)
	if err != nil {
		return
	}
	var mv playlist.Multivariant
	if mv.Unmarshal(buf) != nil || len(mv.Variants) != 1 {
		verifFail("C16", "multivariant-parses")
		return
	}
	verifAssert("C16", "codecs-lists-every-track-current-parameters", len(mv.Variants[0].Codecs) == 1 && mv.Variants[0].Codecs[0] == want)
	verifAssert("C16", "resolution-matches-sequence-header", mv.Variants[0].Resolution == "1920x1080")
	verifReach("end")
}
