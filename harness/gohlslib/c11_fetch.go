//go:build verif

package gohlslib

// C11 — the client fetches segments consecutively, exactly once, from the right start.

import (
	"context"
	"net/http"
	"net/url"
	"strconv"
	"sync/atomic"
	"time"

	"github.com/bluenviron/gohlslib/v2/pkg/playlist"
)

func verifDownloader(first *playlist.Media) *clientStreamDownloader {
	u, _ := url.Parse("http://host.example/live/dir/stream.m3u8?tok=1")
	d := &clientStreamDownloader{
		isLeading:                true,
		httpClient:               &http.Client{Transport: verifRoundTripper{}},
		onRequest:                func(*http.Request) {},
		onDownloadStreamPlaylist: func(string) {},
		onDownloadSegment:        func(string) {},
		onDownloadPart:           func(string) {},
		onDecodeError:            func(error) {},
		playlistURL:              u,
		firstPlaylist:            first,
	}
	d.initialize()
	d.segmentQueue = &clientSegmentQueue{}
	d.segmentQueue.initialize()
	return d
}

type vURICase struct{ uri, want string }

var verifURICases = []vURICase{
	{"seg.mp4", "http://host.example/live/dir/seg.mp4"},
	{"sub/seg.mp4?a=1&b=2", "http://host.example/live/dir/sub/seg.mp4?a=1&b=2"},
	{"/abs/seg.mp4", "http://host.example/abs/seg.mp4"},
	{"https://cdn.example:8443/x/seg.mp4?z=9", "https://cdn.example:8443/x/seg.mp4?z=9"},
	{"../up/seg.mp4", "http://host.example/live/up/seg.mp4"},
}

// parses "bytes=a-b"
func verifParseRange(s string) (uint64, uint64, bool) {
	if len(s) < 7 || s[:6] != "bytes=" {
		return 0, 0, false
	}
	s = s[6:]
	var a, b uint64
	i := 0
	for i < len(s) && s[i] >= '0' && s[i] <= '9' {
		a = a*10 + uint64(s[i]-'0')
		i++
	}
	if i == 0 || i >= len(s) || s[i] != '-' {
		return 0, 0, false
	}
	j := i + 1
	for j < len(s) && s[j] >= '0' && s[j] <= '9' {
		b = b*10 + uint64(s[j]-'0')
		j++
	}
	if j == i+1 || j != len(s) {
		return 0, 0, false
	}
	return a, b, true
}

// VerifH_C11_fill: one real fillSegmentQueue step from an arbitrary (playlist, current segment) state.
func VerifH_C11_fill() {
	verifReqLog, verifPlaylists = nil, nil
	n := 1 + verifChoice("nsegs", verifParam("MAXSEGS", 8))
	msn := int(verifRangeI64("msn", 0, 1<<30))
	endlist := verifBool("endlist")
	var ptype *playlist.MediaPlaylistType
	switch verifChoice("type", 3) {
	case 1:
		v := playlist.MediaPlaylistType(playlist.MediaPlaylistTypeEvent)
		ptype = &v
	case 2:
		v := playlist.MediaPlaylistType(playlist.MediaPlaylistTypeVOD)
		ptype = &v
	}
	uc := verifURICases[verifChoice("uricase", len(verifURICases))]
	pl := &playlist.Media{MediaSequence: msn, Endlist: endlist, PlaylistType: ptype, TargetDuration: 2}
	t0 := time.Date(2020, 1, 1, 0, 0, 0, 0, time.UTC)
	for i := 0; i < n; i++ {
		dt := t0.Add(time.Duration(i) * time.Second)
		pl.Segments = append(pl.Segments, &playlist.MediaSegment{Duration: time.Second, URI: "other" + itoaSmall(i) + ".mp4", DateTime: &dt})
	}
	first := verifBool("firstcall")
	d := verifDownloader(&playlist.Media{PlaylistType: ptype})
	cur := 0
	if !first {
		cur = int(verifRangeI64("cur", 0, 1<<30))
		c := cur
		d.curSegmentID = &c
	}
	// specification
	want := -1
	switch {
	case first && ptype != nil && *ptype == playlist.MediaPlaylistTypeVOD:
		want = 0
	case first:
		if n >= 3 {
			want = n - 3
		}
	default:
		idx := cur + 1 - msn
		if idx >= 0 && idx < n && (endlist || n-idx <= 5) {
			want = idx
		}
	}
	// byte range of the expected segment
	hasLen := verifBool("haslength")
	hasStart := hasLen && verifBool("hasstart")
	var bl, bs uint64
	if verifBool("sameuri") {
		// byte-range addressing: every segment is a range of the same file
		for _, sg := range pl.Segments {
			sg.URI = uc.uri
		}
	}
	if want >= 0 {
		pl.Segments[want].URI = uc.uri
		if hasLen {
			bl = verifRangeU64("brlength", 1, uint64(verifParam("MAXRANGE", 99999)))
			pl.Segments[want].ByteRangeLength = &bl
			if hasStart {
				bs = verifRangeU64("brstart", 0, uint64(verifParam("MAXRANGE", 99999)))
				pl.Segments[want].ByteRangeStart = &bs
			} else if want > 0 && verifBool("prevrange") {
				// RFC 8216 4.3.2.2: without an offset the sub-range begins at the next byte following the sub-range of
				// the previous Media Segment (which is a sub-range of the same resource); the previous one may itself
				// lack an offset (chain of two)
				prev := pl.Segments[want-1]
				prev.URI = uc.uri
				pln := verifRangeU64("prevlength", 1, uint64(verifParam("MAXRANGE", 99999)))
				prev.ByteRangeLength = &pln
				if want > 1 && verifBool("prevchained") {
					pp := pl.Segments[want-2]
					pp.URI = uc.uri
					ppl := verifRangeU64("prevprevlength", 1, uint64(verifParam("MAXRANGE", 99999)))
					pps := verifRangeU64("prevprevstart", 0, uint64(verifParam("MAXRANGE", 99999)))
					pp.ByteRangeLength, pp.ByteRangeStart = &ppl, &pps
					bs = pps + ppl + pln
				} else {
					ps := verifRangeU64("prevstart", 0, uint64(verifParam("MAXRANGE", 99999)))
					prev.ByteRangeStart = &ps
					bs = ps + pln
				}
			}
		}
	}
	body := []byte{'S', 1, 2, 3}
	verifResponder = func(*http.Request) (int, []byte, error) { return 200, body, nil }
	ctx, cancel := context.WithCancel(context.Background())
	var err error
	var done atomic.Bool
	go func() {
		err = d.fillSegmentQueue(ctx, pl)
		done.Store(true)
	}()
	verifQuiesce()
	if want < 0 {
		verifReach("stops-with-error")
		verifAssert("C11", "stops-with-error-instead-of-jumping", done.Load() && err != nil)
		verifAssert("C11", "no-download-on-error", len(verifReqLog) == 0 && len(d.segmentQueue.queue) == 0)
		cancel()
		return
	}
	verifReach("downloads")
	verifAssert("C11", "exactly-one-download", len(verifReqLog) == 1)
	if len(verifReqLog) != 1 {
		cancel()
		return
	}
	rq := verifReqLog[0]
	verifAssert("C11", "uri-resolved-against-playlist-url", rq.url == uc.want)
	if hasLen {
		wantRange := "bytes=" + strconv.FormatUint(bs, 10) + "-" + strconv.FormatUint(bs+bl-1, 10)
		verifAssert("C11", "range-header", rq.isSet && rq.rng == wantRange)
	} else {
		verifAssert("C11", "no-range-header", !rq.isSet)
	}
	verifAssert("C11", "current-segment-is-the-downloaded-one", d.curSegmentID != nil && *d.curSegmentID == msn+want)
	q := d.segmentQueue.queue
	verifAssert("C11", "segment-queued-with-its-date-time", len(q) >= 1 && q[0] != nil && len(q[0].payload) == 4 && q[0].dateTime == pl.Segments[want].DateTime)
	last := endlist && want == n-1
	if last {
		verifReach("end-of-stream")
		verifAssert("C11", "eos-sentinel-after-last-segment", len(q) == 2 && q[1] == nil)
		verifAssert("C11", "waits-for-termination-after-eos", !done.Load())
		cancel()
		verifQuiesce()
		verifAssert("C11", "returns-after-cancel", done.Load())
	} else {
		verifAssert("C11", "returns-nil-and-one-queued", done.Load() && err == nil && len(q) == 1)
		cancel()
	}
}

// VerifH_C11_traditional: the real runTraditional against a scripted server whose window advances
// by a symbolic amount between polls; a harness thread plays the processor.
func VerifH_C11_traditional() {
	verifReqLog, verifPlaylists = nil, nil
	W := 3 + verifChoice("window", 3) // 3..5 listed segments
	base := int(verifRangeI64("msn0", 0, 1000))
	polls := verifParam("POLLS", 3)
	adv := 0
	mk := func(msn int, endlist bool) *playlist.Media {
		p := &playlist.Media{MediaSequence: msn, TargetDuration: 2, Endlist: endlist}
		for i := 0; i < W; i++ {
			p.Segments = append(p.Segments, &playlist.MediaSegment{Duration: time.Second, URI: "s" + itoaSmall(i) + ".mp4"})
		}
		return p
	}
	d := verifDownloader(mk(base, false))
	npl := 0
	lastMSN := base
	var segReqs []int // media sequence numbers requested, derived from (playlist msn, index)
	verifResponder = func(req *http.Request) (int, []byte, error) {
		u := req.URL.String()
		if len(u) > 5 && u[len(u)-6-5:len(u)-6] == ".m3u8" || containsStr(u, ".m3u8") {
			npl++
			step := verifChoice("advance", 3) // the live edge moves by 0..2 segments between polls
			adv += step
			lastMSN = base + adv
			return 200, verifPlaylistBlob(mk(lastMSN, false)), nil
		}
		// segment: URI is s<i>.mp4 relative to the most recent playlist
		i := int(u[len("http://host.example/live/dir/s")] - '0')
		segReqs = append(segReqs, lastMSN+i)
		return 200, []byte{'S'}, nil
	}
	ctx, cancel := context.WithCancel(context.Background())
	var rerr error
	var done atomic.Bool
	go func() {
		rerr = d.runTraditional(ctx)
		done.Store(true)
	}()
	// processor: pulls every queued segment
	pulled := 0
	go func() {
		for {
			_, ok := d.segmentQueue.pull(ctx)
			if !ok {
				return
			}
			pulled++
			if pulled >= polls {
				return
			}
		}
	}()
	verifQuiesce()
	cancel()
	verifQuiesce()
	verifReach("ran")
	verifAssert("C11", "downloader-terminates", done.Load())
	// first segment: third from last of the first playlist; then consecutive numbers
	if len(segReqs) > 0 {
		verifAssert("C11", "live-start-third-from-last", segReqs[0] == base+W-3)
	}
	for i := 1; i < len(segReqs); i++ {
		verifAssert("C11", "consecutive-media-sequence-numbers", segReqs[i] == segReqs[i-1]+1)
	}
	// (the order of playlist reloads and segment requests is not part of the statement: a client that skips a reload
	// because the next segment is already listed is as correct as one that reloads every time)
	_ = rerr
}

// VerifH_C11_lowlatency: the real runLowLatency: the preload hint of each successive playlist is
// downloaded, delta updates are requested exactly when CAN-SKIP-UNTIL was advertised.
func VerifH_C11_lowlatency() {
	verifReqLog, verifPlaylists = nil, nil
	canSkip := verifBool("canskip")
	withRange := verifBool("hintrange")
	startOnly := !withRange && verifBool("hintstartonly") // BYTERANGE-START without BYTERANGE-LENGTH: from that offset to the end of the resource
	mk := func(k int) *playlist.Media {
		t := time.Second
		sc := &playlist.MediaServerControl{CanBlockReload: true}
		if canSkip {
			sc.CanSkipUntil = &t
		}
		p := &playlist.Media{MediaSequence: 5, TargetDuration: 2, ServerControl: sc,
			Segments:    []*playlist.MediaSegment{{Duration: time.Second, URI: "s0.mp4"}},
			PreloadHint: &playlist.MediaPreloadHint{URI: "part" + itoaSmall(k) + ".mp4"}}
		if k == 0 {
			// PROGRAM-DATE-TIME applies to the next segment only: any subset of the segments may carry it
			t0 := time.Date(2022, 2, 2, 2, 2, 2, 0, time.UTC)
			if verifBool("twosegments") {
				p.Segments = append(p.Segments, &playlist.MediaSegment{Duration: time.Second, URI: "s1.mp4"})
			}
			for _, sg := range p.Segments {
				if verifBool("hasdatetime") {
					sg.DateTime = &t0
				}
			}
			if verifBool("openpart") {
				p.Parts = []*playlist.MediaPart{{Duration: 200 * time.Millisecond, URI: "op.mp4"}}
			}
		}
		if withRange {
			l := verifRangeU64("hintlen", 1, 99)
			p.PreloadHint.ByteRangeStart = verifRangeU64("hintstart", 0, 99)
			p.PreloadHint.ByteRangeLength = &l
		}
		if startOnly {
			p.PreloadHint.ByteRangeStart = verifRangeU64("hintstart", 1, 99)
		}
		return p
	}
	d := verifDownloader(mk(0))
	iters := verifParam("ITERS", 3)
	k := 0
	verifResponder = func(req *http.Request) (int, []byte, error) {
		u := req.URL.String()
		if containsStr(u, ".m3u8") {
			k++
			if k >= iters {
				return 500, nil, nil // ends the loop with an error
			}
			return 200, verifPlaylistBlob(mk(k)), nil
		}
		return 200, []byte{'P', byte(k)}, nil
	}
	err := d.runLowLatency(context.Background())
	verifAssert("C11", "http-failure-surfaces-as-error", err != nil)
	verifReach("ran")
	np := 0
	for i, r := range verifReqLog {
		isPl := containsStr(r.url, ".m3u8")
		verifAssert("C11", "ll-alternates-hint-and-playlist", isPl == (i%2 == 1))
		if isPl {
			verifAssert("C11", "delta-update-iff-can-skip-until", containsStr(r.url, "_HLS_skip=YES") == canSkip)
			verifAssert("C11", "playlist-query-preserved", containsStr(r.url, "tok=1"))
		} else {
			verifAssert("C11", "preload-hint-of-each-successive-playlist", r.url == "http://host.example/live/dir/part"+itoaSmall(np)+".mp4")
			verifAssert("C11", "hint-range-header", r.isSet == (withRange || startOnly))
			if startOnly && r.isSet {
				// open-ended range "bytes=<start>-"
				verifAssert("C11", "hint-open-ended-range", len(r.rng) > 7 && r.rng[:6] == "bytes=" && r.rng[len(r.rng)-1] == '-')
			}
			np++
		}
	}
	verifAssert("C11", "all-hints-queued", len(d.segmentQueue.queue) == np)
}
