//go:build verif

package gohlslib

// C20 — bounded look-ahead of the real download loop (non-Low-Latency modes).

import (
	"context"
	"net/http"
	"sync/atomic"
	"time"

	"github.com/bluenviron/gohlslib/v2/pkg/playlist"
)

// VerifH_C20_lookahead: the real runTraditional (fillSegmentQueue, downloadSegment, the real queue) against a scripted
// server that answers at once and already lists several segments ahead — a VOD playlist of W segments, or a live window
// of W segments whose edge moves by 0..2 segments per reload. A harness thread plays the processor: it takes PULLS
// (symbolic, 0..2) segments out of the queue and then stays busy with the last one. However fast the server is, the
// downloader may then hold at most two downloaded segments that wait: downloads <= taken + 2, whatever the playlist offers.
func VerifH_C20_lookahead() {
	verifReqLog, verifPlaylists = nil, nil
	W := 6 + verifChoice("window", 3) // 6..8 listed segments
	vod := verifBool("vod")
	pulls := verifChoice("pulls", 3)
	base := int(verifRangeI64("msn0", 0, 1000))
	adv := 0
	mk := func(msn int) *playlist.Media {
		p := &playlist.Media{MediaSequence: msn, TargetDuration: 2}
		if vod {
			t := playlist.MediaPlaylistType(playlist.MediaPlaylistTypeVOD)
			p.PlaylistType = &t
			p.Endlist = true
		}
		for i := 0; i < W; i++ {
			p.Segments = append(p.Segments, &playlist.MediaSegment{Duration: time.Second, URI: "s" + itoaSmall(i) + ".mp4"})
		}
		return p
	}
	d := verifDownloader(mk(base))
	lastMSN := base
	fetched := 0
	verifResponder = func(req *http.Request) (int, []byte, error) {
		u := req.URL.String()
		if containsStr(u, ".m3u8") {
			if !vod {
				adv += verifChoice("advance", 3)
				lastMSN = base + adv
			}
			return 200, verifPlaylistBlob(mk(lastMSN)), nil
		}
		fetched++
		return 200, []byte{'S'}, nil
	}
	ctx, cancel := context.WithCancel(context.Background())
	var done atomic.Bool
	go func() {
		_ = d.runTraditional(ctx)
		done.Store(true)
	}()
	taken := 0
	go func() {
		for taken < pulls {
			_, ok := d.segmentQueue.pull(ctx)
			if !ok {
				return
			}
			taken++
		}
		// busy with the segment taken last (or not started yet)
	}()
	verifQuiesce()
	verifReach("quiescent")
	d.segmentQueue.mutex.Lock()
	waiting := 0
	for _, s := range d.segmentQueue.queue {
		if s != nil {
			waiting++
		}
	}
	d.segmentQueue.mutex.Unlock()
	verifAssert("C20", "at-most-two-downloaded-segments-waiting", waiting <= 2)
	verifAssert("C20", "downloads-bounded-by-consumption", fetched <= taken+2)
	if vod {
		// W >= 6 > pulls + 2: the playlist still offers segments, a starved processor would be a lost wake-up
		verifAssert("C20", "processor-not-starved", taken == pulls && fetched >= taken+1)
	}
	cancel()
	verifQuiesce()
	verifAssert("C20", "downloader-returns-after-cancel", done.Load())
	verifReach("end")
}
