//go:build verif

package gohlslib

import "time"

//verif:stub github.com/bluenviron/gohlslib/v2.findCompatiblePartDuration verifStub_findCompat

// ---- Low-Latency part duration search: in the bounded runs its result is an arbitrary value in
// the range lemma.compat (C19) proves for the real function; C01-C05 must hold for any such value ----

func verifStub_findCompat(minPartDuration time.Duration, sampleDurations map[time.Duration]struct{}) time.Duration {
	return time.Duration(verifRangeI64("adjustedPartDuration", int64(minPartDuration), int64(5*time.Second)))
}
