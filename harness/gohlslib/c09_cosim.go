//go:build verif

package gohlslib

// C09 — a Client reading a Muxer reproduces the written stream.

import (
	"github.com/bluenviron/mediacommon/v2/pkg/formats/mpegts"
	"bytes"
	"net/http"
	"time"

	"github.com/bluenviron/gohlslib/v2/pkg/codecparams"
	"github.com/bluenviron/gohlslib/v2/pkg/codecs"
	"github.com/bluenviron/gohlslib/v2/pkg/playlist"
	"github.com/bluenviron/mediacommon/v2/pkg/codecs/mpeg4audio"
)


// VerifH_C09_codecs: whatever RFC 6381 string the muxer advertises for a track it accepts, the
// client's variant selection must accept it (otherwise a Client can never read that Muxer).
func VerifH_C09_codecs() {
	var c codecs.Codec
	switch verifChoice("codec", 6) {
	case 0:
		c = &codecs.H264{SPS: verifTestSPS, PPS: []byte{8}}
	case 1:
		c = &codecs.H265{VPS: []byte{1, 2, 3, 4}, SPS: []byte{
			0x42, 0x01, 0x01, 0x01, 0x60, 0x00, 0x00, 0x03, 0x00, 0x90, 0x00, 0x00, 0x03, 0x00, 0x00, 0x03,
			0x00, 0x78, 0xa0, 0x03, 0xc0, 0x80, 0x10, 0xe5, 0x96, 0x66, 0x69, 0x24, 0xca, 0xe0, 0x10, 0x00,
			0x00, 0x03, 0x00, 0x10, 0x00, 0x00, 0x03, 0x01, 0xe0, 0x80}, PPS: []byte{8}}
	case 2:
		c = &codecs.AV1{SequenceHeader: []byte{10, 11, 0, 0, 0, 66, 167, 191, 230, 46, 223, 200, 66}}
	case 3:
		c = &codecs.VP9{Width: 1920, Height: 1080, Profile: uint8(verifRangeI64("vp9profile", 0, 3)), BitDepth: uint8(verifRangeI64("vp9depth", 8, 12))}
	case 4:
		c = &codecs.MPEG4Audio{Config: mpeg4audio.Config{Type: mpeg4audio.ObjectType(verifRangeI64("aactype", 1, 42)), SampleRate: 44100, ChannelCount: 2}}
	case 5:
		c = &codecs.Opus{ChannelCount: 2}
	}
	s := codecparams.Marshal(c)
	verifReach("marshalled")
	verifAssert("C09", "muxer-advertises-a-codec-string", s != "")
	verifAssert("C09", "client-accepts-the-codec-string-the-muxer-advertises", checkSupport([]string{s}))
}

// VerifH_C09_cosim: K symbolic writes into a real fMP4 muxer, then a real Client is pointed at it
// (its HTTP requests are answered by the real Muxer.Handle); what the client reports and delivers
// is compared with what was written.
func VerifH_C09_cosim() {
	verifVideoStarted = map[int]bool{}
	verifPartLog, verifInitLog, verifMediaLog, verifMultiLog, verifTSLog = nil, nil, nil, nil, nil
	verifReqLog, verifPlaylists = nil, nil
	verifPtsOffMax = 0
	r := verifSetup()
	if r.g.variant == MuxerVariantMPEGTS {
		// symbolic build: the reader stub of cli_ts.go resolves the tags written by the writer stub of mux_stubs.go
		verifTSCbVideo = map[*mpegts.Track]mpegts.ReaderOnDataH264Func{}
		verifTSCbAudio = map[*mpegts.Track]mpegts.ReaderOnDataMPEG4AudioFunc{}
		verifTSClientTracks = nil
		for _, mt := range r.m.mtracks {
			verifTSClientTracks = append(verifTSClientTracks, mt.mpegtsTrack)
		}
	}
	K := verifParam("K", 5)
	for r.k = 0; r.k < K; r.k++ {
		ti := 0
		if len(r.tracks) > 1 && r.k > 0 && verifParam("NOAUDIO", 0) == 0 {
			ti = verifChoice("track", len(r.tracks))
		}
		if r.g.tracks[ti].video {
			r.writeVideo(ti)
		} else {
			r.writeAudio(ti)
		}
	}
	g := r.g
	if len(g.segs) < 3 {
		return // a live client needs three complete segments
	}
	verifReach("three-segments")
	verifFaultHook = nil
	verifResponder = func(req *http.Request) (int, []byte, error) {
		w := &verifRW{hdr: make(http.Header)}
		r.m.Handle(w, req)
		if w.code == 0 {
			w.code = 404
		}
		return w.code, w.body, nil
	}
	type got struct {
		pts, dts int64
		au       [][]byte
		abs      time.Time
		absOK    bool
	}
	delivered := make([][]got, len(r.tracks))
	var reported []*Track
	c := &Client{URI: "http://host.example/live/index.m3u8", HTTPClient: &http.Client{Transport: verifRoundTripper{}},
		OnDownloadPrimaryPlaylist: func(string) {}, OnDownloadStreamPlaylist: func(string) {}, OnDownloadSegment: func(string) {},
		OnDownloadPart: func(string) {}, OnDecodeError: func(error) {}}
	c.OnTracks = func(tracks []*Track) error {
		reported = tracks
		for i, t := range tracks {
			i, t := i, t
			switch t.Codec.(type) {
			case *codecs.H264, *codecs.H265:
				c.OnDataH26x(t, func(pts int64, dts int64, au [][]byte) {
					a, ok := c.AbsoluteTime(t)
					delivered[i] = append(delivered[i], got{pts, dts, au, a, ok})
				})
			case *codecs.VP9:
				c.OnDataVP9(t, func(pts int64, frame []byte) {
					a, ok := c.AbsoluteTime(t)
					delivered[i] = append(delivered[i], got{pts, pts, [][]byte{frame}, a, ok})
				})
			case *codecs.AV1:
				c.OnDataAV1(t, func(pts int64, tu [][]byte) {
					a, ok := c.AbsoluteTime(t)
					delivered[i] = append(delivered[i], got{pts, pts, tu, a, ok})
				})
			case *codecs.MPEG4Audio:
				c.OnDataMPEG4Audio(t, func(pts int64, aus [][]byte) {
					a, ok := c.AbsoluteTime(t)
					delivered[i] = append(delivered[i], got{pts, pts, aus, a, ok})
				})
			}
		}
		return nil
	}
	err := c.Start()
	verifAssert("C09", "client-starts", err == nil)
	var werr error
	if verifSymbolic() {
		verifQuiesce() // the client reads everything that is available, then waits for / fails on the next segment
		c.Close()
		werr = <-c.Wait()
	} else {
		select {
		case werr = <-c.Wait():
		case <-time.After(2 * time.Second):
			c.Close()
			werr = <-c.Wait()
		}
	}
	_ = werr
	verifReach("client-done")
	// tracks
	verifAssert("C09", "reports-the-muxer-tracks", len(reported) == len(r.tracks))
	if len(reported) != len(r.tracks) {
		return
	}
	for i, t := range reported {
		mt := r.tracks[i]
		if g.variant == MuxerVariantMPEGTS {
			verifAssert("C09", "track-clock-rate", t.ClockRate == 90000) // 90 kHz throughout for MPEG-TS
		} else {
			verifAssert("C09", "track-clock-rate", t.ClockRate == mt.ClockRate)
		}
		switch mc := mt.Codec.(type) {
		case *codecs.H264:
			cc, ok := t.Codec.(*codecs.H264)
			if g.variant == MuxerVariantMPEGTS {
				verifAssert("C09", "track-codec-type", ok) // MPEG-TS carries the parameter sets in-band only
			} else {
				verifAssert("C09", "track-codec-type-and-parameters", ok && bytes.Equal(cc.SPS, mc.SPS) && (bytes.Equal(cc.PPS, mc.PPS) || g.pending || g.open.forced))
			}
		case *codecs.H265:
			cc, ok := t.Codec.(*codecs.H265)
			verifAssert("C09", "track-codec-type-and-parameters", ok && bytes.Equal(cc.VPS, mc.VPS) && (g.pending || g.open.forced || (bytes.Equal(cc.SPS, mc.SPS) && bytes.Equal(cc.PPS, mc.PPS))))
		case *codecs.VP9:
			cc, ok := t.Codec.(*codecs.VP9)
			verifAssert("C09", "track-codec-type-and-parameters", ok && (g.pending || g.open.forced || (cc.Width == mc.Width && cc.Height == mc.Height && cc.Profile == mc.Profile && cc.BitDepth == mc.BitDepth)))
		case *codecs.AV1:
			cc, ok := t.Codec.(*codecs.AV1)
			verifAssert("C09", "track-codec-type-and-parameters", ok && (g.pending || g.open.forced || bytes.Equal(cc.SequenceHeader, mc.SequenceHeader)))
		case *codecs.MPEG4Audio:
			cc, ok := t.Codec.(*codecs.MPEG4Audio)
			verifAssert("C09", "track-codec-type-and-parameters", ok && cc.Config.SampleRate == mc.Config.SampleRate && cc.Config.ChannelCount == mc.Config.ChannelCount)
			if len(r.tracks) > 1 && g.variant != MuxerVariantMPEGTS {
				wantName := mt.Name
				if wantName == "" {
					wantName = "audio" + itoaSmall(i+1)
				}
				verifAssert("C09", "rendition-name-language-default", t.Name == wantName && t.Language == mt.Language && t.IsDefault)
			}
		}
	}
	// units: the client starts at the third-from-last complete segment
	first := len(g.segs) - 3
	lead := g.lead()
	var origin int64
	haveOrigin := false
	for _, e := range lead.emitted {
		if e.seg == first && !haveOrigin {
			origin, haveOrigin = e.u.dts, true
		}
	}
	if !haveOrigin {
		return
	}
	// known finding: when a declared track has no data at all in the segments the client reads (e.g. an audio track
	// that starts later than the video), its rendition segments are empty and the client gives up ("could not find data
	// of leading track"); that input class has its own label so that any other loss of units is still reported
	undelivered := "unit-delivered"
	for _, t := range g.tracks {
		has := false
		for _, e := range t.emitted {
			if e.seg >= first && e.seg < len(g.segs) {
				has = true
			}
		}
		if !has {
			undelivered = "unit-delivered [a declared track has no data in the segments the client reads]"
		}
	}
	for ti, t := range g.tracks {
		o := multiplyAndDivide(origin, int64(t.rate), int64(lead.rate))
		gi := 0
		for _, e := range t.emitted {
			if e.seg < first || e.seg >= len(g.segs) {
				continue
			}
			wdts := e.u.dts - o
			if g.variant == MuxerVariantMPEGTS {
				// every track is carried, and delivered, at 90 kHz
				wdts = multiplyAndDivide(e.u.dts, 90000, int64(t.rate)) - multiplyAndDivide(origin, 90000, int64(lead.rate))
			}
			if wdts+e.u.ptsOff < -1 {
				continue // precedes the origin
			}
			if gi >= len(delivered[ti]) {
				verifFail("C09", undelivered)
				continue
			}
			d := delivered[ti][gi]
			gi++
			verifReach("unit-compared")
			diff := d.dts - wdts
			verifAssert("C09", "unit-dts-within-one-tick", diff >= -1 && diff <= 1)
			verifAssert("C09", "unit-pts-within-one-tick", d.pts-(wdts+e.u.ptsOff) >= -1 && d.pts-(wdts+e.u.ptsOff) <= 1)
			var cat []byte
			for _, n := range d.au {
				cat = append(cat, n...)
			}
			verifAssert("C09", "unit-bytes", bytes.Equal(cat, verifNALUs(e.u)))
			if d.absOK && verifParam("ABSTIME", 0) == 1 {
				seg := g.segs[e.seg]
				want := seg.ntp.Add(timestampToDuration(e.u.dts, t.rate) - timestampToDuration(seg.first.dts, lead.rate))
				verifAssert("C09", "absolute-time-within-1ms", verifAbsDur(d.abs.Sub(want)) <= time.Millisecond+2*time.Microsecond)
			}
		}
		verifAssert("C09", "nothing-delivered-twice-or-invented", gi == len(delivered[ti]))
	}
}

// verifNALUs: the concatenated NAL units / access units of a written unit (what the client's callback receives)
func verifNALUs(u *vUnit) []byte { return u.raw }

var _ = playlist.MediaPlaylistTypeVOD
