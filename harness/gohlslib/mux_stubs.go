//go:build verif

package gohlslib

// Environment stubs at the mediacommon boundary for the muxer harnesses (symbolic build only:
// symgo redirects the named callees to these functions; natively the real functions run).
//
// Trusted base: mediacommon's Marshal/Unmarshal are inverse to each other, so a value handed
// to Part.Marshal is what a client decodes from the bytes that were written.

import (
	"bytes"
	"io"
	"time"

	"github.com/bluenviron/gohlslib/v2/pkg/playlist"
	"github.com/bluenviron/mediacommon/v2/pkg/codecs/av1"
	"github.com/bluenviron/mediacommon/v2/pkg/codecs/h264"
	"github.com/bluenviron/mediacommon/v2/pkg/codecs/h265"
	"github.com/bluenviron/mediacommon/v2/pkg/formats/fmp4"
	"github.com/bluenviron/mediacommon/v2/pkg/formats/mpegts"
)

//verif:stub (*github.com/bluenviron/mediacommon/v2/pkg/codecs/h264.DTSExtractor).Extract verifStub_H264Extract
//verif:stub (*github.com/bluenviron/mediacommon/v2/pkg/codecs/h264.DTSExtractor).Initialize verifStub_H264ExtractInit
//verif:stub (*github.com/bluenviron/mediacommon/v2/pkg/formats/fmp4.PartSample).FillH264 verifStub_FillH264
//verif:stub (*github.com/bluenviron/mediacommon/v2/pkg/codecs/h265.DTSExtractor).Extract verifStub_H265Extract
//verif:stub (*github.com/bluenviron/mediacommon/v2/pkg/codecs/h265.DTSExtractor).Initialize verifStub_H265ExtractInit
//verif:stub (*github.com/bluenviron/mediacommon/v2/pkg/formats/fmp4.PartSample).FillH265 verifStub_FillH265
//verif:stub (*github.com/bluenviron/mediacommon/v2/pkg/codecs/h265.SPS).Unmarshal verifStub_H265SPSUnmarshal
//verif:stub (*github.com/bluenviron/mediacommon/v2/pkg/codecs/av1.SequenceHeader).Unmarshal verifStub_AV1SeqUnmarshal
//verif:stub (*github.com/bluenviron/mediacommon/v2/pkg/formats/fmp4.Part).Marshal verifStub_PartMarshal
//verif:stub (*github.com/bluenviron/mediacommon/v2/pkg/formats/fmp4.Parts).Unmarshal verifStub_PartsUnmarshal
//verif:stub (*github.com/bluenviron/mediacommon/v2/pkg/formats/fmp4.Init).Marshal verifStub_InitMarshal
//verif:stub (*github.com/bluenviron/mediacommon/v2/pkg/formats/fmp4.Init).Unmarshal verifStub_InitUnmarshal
//verif:stub (github.com/bluenviron/gohlslib/v2/pkg/playlist.Media).Marshal verifStub_MediaMarshal
//verif:stub (*github.com/bluenviron/gohlslib/v2/pkg/playlist.Media).Unmarshal verifStub_MediaUnmarshal
//verif:stub (github.com/bluenviron/gohlslib/v2/pkg/playlist.Multivariant).Marshal verifStub_MultivariantMarshal
//verif:stub (*github.com/bluenviron/gohlslib/v2/pkg/playlist.Multivariant).Unmarshal verifStub_MultivariantUnmarshal
//verif:stub (*github.com/bluenviron/mediacommon/v2/pkg/formats/mpegts.Writer).Initialize verifStub_TSInit
//verif:stub (*github.com/bluenviron/mediacommon/v2/pkg/formats/mpegts.Writer).WriteH264 verifStub_TSWriteH264
//verif:stub (*github.com/bluenviron/mediacommon/v2/pkg/formats/mpegts.Writer).WriteMPEG4Audio verifStub_TSWriteMPEG4Audio
//verif:stub (*github.com/bluenviron/mediacommon/v2/pkg/codecs/h264.SPS).Unmarshal verifStub_SPSUnmarshal
//verif:stub (github.com/bluenviron/mediacommon/v2/pkg/codecs/h264.SPS).Width verifStub_SPSWidth
//verif:stub (github.com/bluenviron/mediacommon/v2/pkg/codecs/h264.SPS).Height verifStub_SPSHeight
//verif:stub (github.com/bluenviron/mediacommon/v2/pkg/codecs/h264.SPS).FPS verifStub_SPSFPS

// ---- H264 DTS extraction: dts = pts - offset with a harness-chosen offset (contract: dts <= pts) ----

var verifPtsOffMax int64 // 0 = pts==dts (what simple access units can express natively)

func verifStub_H264ExtractInit(d *h264.DTSExtractor) {}

// verifDTSOverride: set by the harness that feeds a real reordered (B-frame) sequence: the DTS the real extractor
// computes for the next access unit (taken from mediacommon's own test vector)
var verifDTSOverride *int64

func verifStub_H264Extract(d *h264.DTSExtractor, au [][]byte, pts int64) (int64, error) {
	if verifDTSOverride != nil {
		return *verifDTSOverride, nil
	}
	if verifPtsOffMax == 0 {
		return pts, nil
	}
	off := verifRangeI64("ptsoff", 0, verifPtsOffMax)
	return pts - off, nil
}

func verifIsIDR(au [][]byte) bool {
	for _, n := range au {
		if len(n) > 0 && n[0]&0x1F == 5 {
			return true
		}
	}
	return false
}

// payload model: concatenation of the NAL units (real: AVCC length-prefixed concatenation)
func verifStub_FillH264(ps *fmp4.PartSample, ptsOffset int32, au [][]byte) error {
	var p []byte
	for _, n := range au {
		p = append(p, n...)
	}
	ps.PTSOffset = ptsOffset
	ps.IsNonSyncSample = !verifIsIDR(au)
	ps.Payload = p
	return nil
}

// ---- H265: the harness SPS has no picture reordering, for which the real extractor returns dts = pts ----

func verifStub_H265ExtractInit(d *h265.DTSExtractor) {}

func verifStub_H265Extract(d *h265.DTSExtractor, au [][]byte, pts int64) (int64, error) { return pts, nil }

func verifIsH265RA(au [][]byte) bool {
	for _, n := range au {
		if len(n) > 0 {
			if t := (n[0] >> 1) & 0x3F; t == 19 || t == 20 || t == 21 {
				return true
			}
		}
	}
	return false
}

func verifStub_FillH265(ps *fmp4.PartSample, ptsOffset int32, au [][]byte) error {
	var p []byte
	for _, n := range au {
		p = append(p, n...)
	}
	ps.PTSOffset = ptsOffset
	ps.IsNonSyncSample = !verifIsH265RA(au)
	ps.Payload = p
	return nil
}

// ---- fMP4 part / init serialisation: ghost log + a short blob written like the real mp4 writer ----

var verifPartLog []*fmp4.Part
var verifInitLog []*fmp4.Init

func verifWriteBlob(w io.WriteSeeker, kind byte, idx int) error {
	// same seek pattern as mediacommon's mp4Writer: placeholder, body, seek back, rewrite, seek forward
	start, err := w.Seek(0, io.SeekCurrent)
	if err != nil {
		return err
	}
	if _, err = w.Write([]byte{0, 0, 0, 0}); err != nil {
		return err
	}
	if _, err = w.Write([]byte{kind, byte(idx), byte(idx >> 8), 0xEE}); err != nil {
		return err
	}
	end, err := w.Seek(0, io.SeekCurrent)
	if err != nil {
		return err
	}
	if _, err = w.Seek(start, io.SeekStart); err != nil {
		return err
	}
	if _, err = w.Write([]byte{'b', 'l', 'o', 'b'}); err != nil {
		return err
	}
	_, err = w.Seek(end, io.SeekStart)
	return err
}

func verifStub_PartMarshal(p *fmp4.Part, w io.WriteSeeker) error {
	cp := &fmp4.Part{SequenceNumber: p.SequenceNumber}
	for _, t := range p.Tracks {
		ct := &fmp4.PartTrack{ID: t.ID, BaseTime: t.BaseTime}
		for _, s := range t.Samples {
			cs := *s
			ct.Samples = append(ct.Samples, &cs)
		}
		cp.Tracks = append(cp.Tracks, ct)
	}
	verifPartLog = append(verifPartLog, cp)
	return verifWriteBlob(w, 'P', len(verifPartLog)-1)
}

type verifBlobError struct{ msg string }

func (e *verifBlobError) Error() string { return e.msg }

func verifStub_PartsUnmarshal(ps *fmp4.Parts, byts []byte) error {
	*ps = nil
	if len(byts)%8 != 0 {
		return &verifBlobError{"truncated blob"}
	}
	for i := 0; i+8 <= len(byts); i += 8 {
		b := byts[i : i+8]
		if b[0] != 'b' || b[1] != 'l' || b[2] != 'o' || b[3] != 'b' || b[4] != 'P' || b[7] != 0xEE {
			return &verifBlobError{"not a part blob"}
		}
		idx := int(b[5]) | int(b[6])<<8
		if idx >= len(verifPartLog) {
			return &verifBlobError{"unknown part"}
		}
		*ps = append(*ps, verifPartLog[idx])
	}
	return nil
}

func verifStub_InitMarshal(in *fmp4.Init, w io.WriteSeeker) error {
	for _, t := range in.Tracks {
		// the real encoder parses the AV1 sequence header and fails on a truncated one
		if c, ok := t.Codec.(*fmp4.CodecAV1); ok && len(c.SequenceHeader) < 8 {
			return &verifBlobError{"unable to parse AV1 sequence header"}
		}
	}
	cp := &fmp4.Init{}
	for _, t := range in.Tracks {
		ct := *t
		cp.Tracks = append(cp.Tracks, &ct)
	}
	verifInitLog = append(verifInitLog, cp)
	return verifWriteBlob(w, 'I', len(verifInitLog)-1)
}

func verifStub_InitUnmarshal(in *fmp4.Init, r io.ReadSeeker) error {
	b := make([]byte, 8)
	n, _ := io.ReadFull(r, b)
	if n != 8 || b[0] != 'b' || b[4] != 'I' {
		return &verifBlobError{"not an init blob"}
	}
	idx := int(b[5]) | int(b[6])<<8
	if idx >= len(verifInitLog) {
		return &verifBlobError{"unknown init"}
	}
	in.Tracks = verifInitLog[idx].Tracks
	return nil
}

// ---- playlists: the struct is captured at Marshal and handed back at Unmarshal (text layer = C14/C15) ----

var verifMediaLog []*playlist.Media
var verifMultiLog []*playlist.Multivariant

func verifStub_MediaMarshal(m playlist.Media) ([]byte, error) {
	cp := m
	verifMediaLog = append(verifMediaLog, &cp)
	idx := len(verifMediaLog) - 1
	return []byte{'#', 'M', byte(idx), byte(idx >> 8)}, nil
}

func verifStub_MediaUnmarshal(m *playlist.Media, byts []byte) error {
	if len(byts) != 4 || byts[0] != '#' || byts[1] != 'M' {
		return &verifBlobError{"not a media playlist blob"}
	}
	*m = *verifMediaLog[int(byts[2])|int(byts[3])<<8]
	return nil
}

func verifStub_MultivariantMarshal(m playlist.Multivariant) ([]byte, error) {
	cp := m
	verifMultiLog = append(verifMultiLog, &cp)
	idx := len(verifMultiLog) - 1
	return []byte{'#', 'V', byte(idx), byte(idx >> 8)}, nil
}

func verifStub_MultivariantUnmarshal(m *playlist.Multivariant, byts []byte) error {
	if len(byts) != 4 || byts[0] != '#' || byts[1] != 'V' {
		return &verifBlobError{"not a multivariant playlist blob"}
	}
	*m = *verifMultiLog[int(byts[2])|int(byts[3])<<8]
	return nil
}

// ---- integer summaries of the two float kernels (each proven equal to the real function by
// the lemma harnesses lemma.targetDuration / lemma.partTarget on the range asserted here) ----

func verifStub_targetDuration(segments []muxerSegment) int {
	ret := 0
	for _, s := range segments {
		d := s.getDuration()
		verifAssert("*", "summary-range:targetDuration 0<=d<2^47", d >= 0 && d < 1<<47)
		v := int((d + 500*time.Millisecond) / time.Second)
		if v > ret {
			ret = v
		}
	}
	if ret == 0 {
		ret = 1 // never 0: the playlist decoder (and so the library's own client) treats TARGETDURATION:0 as missing
	}
	return ret
}

func verifStub_partTargetDuration(segments []muxerSegment, nextSegmentParts []*muxerPart) time.Duration {
	var ret time.Duration
	for _, seg := range segments {
		seg, ok := seg.(*muxerSegmentFMP4)
		if !ok {
			continue
		}
		for _, part := range seg.parts {
			if part.getDuration() > ret {
				ret = part.getDuration()
			}
		}
	}
	for _, part := range nextSegmentParts {
		if part.getDuration() > ret {
			ret = part.getDuration()
		}
	}
	verifAssert("*", "summary-range:partTargetDuration 0<=d<2^52", ret >= 0 && ret < 1<<52)
	return (ret + time.Millisecond - 1) / time.Millisecond * time.Millisecond
}

// ---- MPEG-TS writer: ghost records + a blob through the real switchable writer ----

type verifTSRecord struct {
	track    *mpegts.Track
	pts, dts int64
	au       [][]byte
	video    bool
}

var verifTSLog []*verifTSRecord

func verifStub_TSInit(w *mpegts.Writer) error { return nil }

func verifStub_TSWriteH264(w *mpegts.Writer, track *mpegts.Track, pts int64, dts int64, au [][]byte) error {
	verifTSLog = append(verifTSLog, &verifTSRecord{track: track, pts: pts, dts: dts, au: au, video: true})
	idx := len(verifTSLog) - 1
	_, err := w.W.Write([]byte{'T', byte(idx), byte(idx >> 8), 0xEE})
	return err
}

func verifStub_TSWriteMPEG4Audio(w *mpegts.Writer, track *mpegts.Track, pts int64, aus [][]byte) error {
	verifTSLog = append(verifTSLog, &verifTSRecord{track: track, pts: pts, dts: pts, au: aus})
	idx := len(verifTSLog) - 1
	_, err := w.W.Write([]byte{'T', byte(idx), byte(idx >> 8), 0xEE})
	return err
}

// ---- SPS parsing for RESOLUTION / FRAME-RATE (C16) ----

// the stub remembers which parameter set it was given (profile byte) so that RESOLUTION follows SPS changes
func verifStub_SPSUnmarshal(s *h264.SPS, buf []byte) error {
	if len(buf) > 1 {
		s.ProfileIdc = buf[1]
	}
	return nil
}
func verifStub_SPSWidth(s h264.SPS) int {
	if s.ProfileIdc == 0x42 {
		return 1920
	}
	return 1280
}
func verifStub_SPSHeight(s h264.SPS) int {
	if s.ProfileIdc == 0x42 {
		return 1080
	}
	return 720
}
func verifStub_SPSFPS(s h264.SPS) float64                  { return 30 }


// ---- parameter-set parsers used by codecparams.Marshal for H265 / AV1 (C09 lemma): accepted, zero fields ----

// the fields RESOLUTION depends on, for the two harness vectors (1280x720 without cropping; 1920x1088 coded, cropped to
// 1080 by the conformance window), so that the real Width() / Height() run on them symbolically too
func verifStub_H265SPSUnmarshal(s *h265.SPS, buf []byte) error {
	switch {
	case bytes.Equal(buf, verifH265SPS):
		s.ChromaFormatIdc, s.PicWidthInLumaSamples, s.PicHeightInLumaSamples = 1, 1280, 720
	case bytes.Equal(buf, verifH265SPS2):
		s.ChromaFormatIdc, s.PicWidthInLumaSamples, s.PicHeightInLumaSamples = 1, 1920, 1088
		s.ConformanceWindow = &h265.SPS_Window{BottomOffset: 4}
	}
	return nil
}
// verifAV1Fields: when set (lemma.codecs.av1), the symbolic parse result of the next sequence header
var verifAV1Fields *av1.SequenceHeader

func verifStub_AV1SeqUnmarshal(s *av1.SequenceHeader, buf []byte) error {
	if verifAV1Fields != nil {
		*s = *verifAV1Fields
		return nil
	}
	s.SeqLevelIdx = []uint8{8}
	s.SeqTier = []bool{false}
	s.ColorConfig.BitDepth = 8
	return nil
}
