//go:build verif

package gohlslib

// C09 - Low-Latency end to end: a real Low-Latency muxer is fed PRE frames, then the whole real Client attaches
// (blocking preload-hint requests answered by the real Muxer.Handle inside the engine) while the harness keeps
// writing: after every write the client threads run until they block again. What the client delivers must be a
// subsequence of the written units: byte-identical, in order, each at most once, with times normalised to the first
// delivered leading unit (the Low-Latency variant may skip units, it may not invent, repeat or reorder them).

import (
	"bytes"
	"net/http"
	"time"

	"github.com/bluenviron/gohlslib/v2/pkg/codecs"
)

func VerifH_C09_llcosim() {
	verifVideoStarted = map[int]bool{}
	verifPartLog, verifInitLog, verifMediaLog, verifMultiLog, verifTSLog = nil, nil, nil, nil, nil
	verifReqLog, verifPlaylists = nil, nil
	verifPtsOffMax = 0
	verifFaultHook = nil
	r := verifSetup() // VARIANT=3 (Low-Latency), CONCRETE=1 (tabled frame durations), FREEZEPART=1
	g := r.g
	K := verifParam("K", 9)
	pre := verifParam("PRE", 4)
	for r.k = 0; r.k < pre; r.k++ {
		r.writeVideo(0)
	}
	m := r.m
	m.mutex.Lock()
	has := m.streams[0].hasContent()
	m.mutex.Unlock()
	if !has {
		return // the playlist is not available yet: a client cannot attach
	}
	verifReach("attached")
	verifResponder = func(req *http.Request) (int, []byte, error) {
		// the handler may block (preload hint, blocking reload): like a real HTTP transport, the request is abandoned
		// when its context is cancelled, while the handler stays parked in the muxer until the muxer is closed
		done := make(chan *verifRW, 1)
		go func() {
			w := &verifRW{hdr: make(http.Header)}
			m.Handle(w, req)
			if w.code == 0 {
				w.code = 404
			}
			done <- w
		}()
		select {
		case w := <-done:
			return w.code, w.body, nil
		case <-req.Context().Done():
			return 0, nil, &verifHTTPError{"context canceled"}
		}
	}
	type got struct {
		pts, dts int64
		au       [][]byte
	}
	var delivered []got
	var reported []*Track
	c := &Client{URI: "http://host.example/live/index.m3u8", HTTPClient: &http.Client{Transport: verifRoundTripper{}},
		OnDownloadPrimaryPlaylist: func(string) {}, OnDownloadStreamPlaylist: func(string) {}, OnDownloadSegment: func(string) {},
		OnDownloadPart: func(string) {}, OnDecodeError: func(error) {}}
	c.OnTracks = func(tracks []*Track) error {
		reported = tracks
		for _, t := range tracks {
			if _, ok := t.Codec.(*codecs.H264); ok {
				c.OnDataH26x(t, func(pts int64, dts int64, au [][]byte) { delivered = append(delivered, got{pts, dts, au}) })
			}
		}
		return nil
	}
	err := c.Start()
	verifAssert("C09", "client-starts", err == nil)
	verifQuiesce()
	for ; r.k < K; r.k++ {
		r.writeVideo(0)
		verifQuiesce() // the client gets as far as it can: hinted part, playlist reload, next hint
	}
	ended := false
	select {
	case <-c.Wait():
		ended = true // the client gave up on its own (an error): not expected while the stream is alive
	default:
	}
	verifAssert("C09", "client-still-following-the-live-stream", !ended)
	c.Close()
	if !ended {
		<-c.Wait()
	}
	m.Close()
	verifReach("client-done")
	verifAssert("C09", "reports-the-muxer-tracks", len(reported) == 1)
	if len(reported) != 1 {
		return
	}
	cc, ok := reported[0].Codec.(*codecs.H264)
	verifAssert("C09", "track-codec-type-and-parameters", ok && reported[0].ClockRate == 90000 && bytes.Equal(cc.SPS, g.sps))
	if len(delivered) == 0 {
		return
	}
	verifReach("delivered-something")
	// match the delivered units against the written ones, in order
	t := g.tracks[0]
	var written []*vUnit
	for _, e := range t.emitted {
		written = append(written, e.u)
	}
	if t.held != nil {
		written = append(written, t.held)
	}
	wi := 0
	var origin int64
	for di, d := range delivered {
		var cat []byte
		for _, n := range d.au {
			cat = append(cat, n...)
		}
		for wi < len(written) && !bytes.Equal(cat, written[wi].raw) {
			wi++
		}
		if wi >= len(written) {
			verifFail("C09", "delivered-unit-is-a-written-unit-in-order-once")
			return
		}
		u := written[wi]
		wi++
		if di == 0 {
			origin = u.dts
		}
		verifReach("unit-compared")
		diff := d.dts - (u.dts - origin)
		verifAssert("C09", "unit-dts-within-one-tick", diff >= -1 && diff <= 1)
		verifAssert("C09", "unit-pts-within-one-tick", d.pts-d.dts == u.ptsOff)
	}
	_ = time.Second
	verifReach("end")
}
