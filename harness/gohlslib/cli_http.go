//go:build verif

package gohlslib

// HTTP environment of the client harnesses (symbolic build): requests are logged, responses are
// scripted by the harness. Natively the real net/http runs against an in-process RoundTripper.

import (
	"bytes"
	"context"
	"io"
	"net/http"
	"net/url"

	"github.com/bluenviron/gohlslib/v2/pkg/playlist"
)

//verif:stub net/http.NewRequestWithContext verifStub_NewRequest
//verif:stub (*net/http.Client).Do verifStub_ClientDo
//verif:stub github.com/bluenviron/gohlslib/v2/pkg/playlist.Unmarshal verifStub_PlaylistUnmarshal

type vReq struct {
	url   string
	rng   string
	isSet bool
}

var (
	verifReqLog   []*vReq
	verifResponder func(req *http.Request) (int, []byte, error)
	verifPlaylists []playlist.Playlist
	verifFaultHook func(req *http.Request) (*http.Response, error)
)

type verifHTTPError struct{ msg string }

func (e *verifHTTPError) Error() string { return e.msg }

func verifStub_NewRequest(ctx context.Context, method, urlStr string, body io.Reader) (*http.Request, error) {
	u, err := url.Parse(urlStr)
	if err != nil {
		return nil, err
	}
	req := &http.Request{Method: method, URL: u, Header: make(http.Header)}
	return req.WithContext(ctx), nil
}

func verifStub_ClientDo(c *http.Client, req *http.Request) (*http.Response, error) {
	r := &vReq{url: req.URL.String()}
	if v, ok := req.Header["Range"]; ok && len(v) > 0 {
		r.rng, r.isSet = v[0], true
	}
	verifReqLog = append(verifReqLog, r)
	if req.Context() != nil {
		select {
		case <-req.Context().Done():
			return nil, &verifHTTPError{"context canceled"}
		default:
		}
	}
	if verifFaultHook != nil {
		if res, err := verifFaultHook(req); res != nil || err != nil {
			return res, err
		}
	}
	code, body, err := verifResponder(req)
	if err != nil {
		return nil, err
	}
	return &http.Response{StatusCode: code, Body: io.NopCloser(bytes.NewReader(body)), Header: make(http.Header), Request: req}, nil
}

// verifRoundTripper is the native twin of the Client.Do stub (real net/http, in-process transport).
type verifRoundTripper struct{}

func (verifRoundTripper) RoundTrip(req *http.Request) (*http.Response, error) {
	return verifStub_ClientDo(nil, req)
}

// playlists travel as a tag; the text layer is C14/C15's subject
func verifPlaylistBlob(p playlist.Playlist) []byte {
	if !verifSymbolic() {
		b, _ := p.Marshal()
		return b
	}
	verifPlaylists = append(verifPlaylists, p)
	i := len(verifPlaylists) - 1
	return []byte{'#', 'L', byte(i), byte(i >> 8)}
}

func verifStub_PlaylistUnmarshal(byts []byte) (playlist.Playlist, error) {
	if len(byts) == 4 && byts[0] == '#' && byts[1] == 'M' { // served by a muxer of the same run
		m := verifMediaLog[int(byts[2])|int(byts[3])<<8]
		// the stub is the identity on what the real decoder accepts; it rejects what the real one rejects as "not set"
		if m.TargetDuration == 0 {
			return nil, &verifHTTPError{"TARGETDURATION not set"}
		}
		if len(m.Segments) == 0 {
			return nil, &verifHTTPError{"no segments found"}
		}
		return m, nil
	}
	if len(byts) == 4 && byts[0] == '#' && byts[1] == 'V' {
		return verifMultiLog[int(byts[2])|int(byts[3])<<8], nil
	}
	if len(byts) != 4 || byts[0] != '#' || byts[1] != 'L' {
		return nil, &verifHTTPError{"not a playlist"}
	}
	return verifPlaylists[int(byts[2])|int(byts[3])<<8], nil
}

func containsStr(s, sub string) bool {
	for i := 0; i+len(sub) <= len(s); i++ {
		if s[i:i+len(sub)] == sub {
			return true
		}
	}
	return false
}

