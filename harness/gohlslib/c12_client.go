//go:build verif

package gohlslib

// C12 — the client always terminates cleanly. The whole real Client (Start, run, routine pool,
// primary/stream downloaders, fMP4 stream and track processors, queues) runs as engine threads
// against a scripted server; Close is issued at a symbolic scheduling point and a fault is
// injected at a symbolic request index.

import (
	"context"
	"io"
	"net/http"
	"time"

	"github.com/bluenviron/gohlslib/v2/pkg/codecs"
	"github.com/bluenviron/gohlslib/v2/pkg/playlist"
	"github.com/bluenviron/mediacommon/v2/pkg/formats/fmp4"
)

type vStallBody struct{ ctx context.Context }

func (b *vStallBody) Read(p []byte) (int, error) {
	<-b.ctx.Done()
	return 0, b.ctx.Err()
}
func (b *vStallBody) Close() error { return nil }

var _ io.ReadCloser = (*vStallBody)(nil)

type vScript struct {
	pl        *playlist.Media
	initBytes []byte
	segBytes  [][]byte
	faultAt   int    // >= 0: a fault is injected
	faultURL  string // the request (identified by its file name) that fails
	faultKind int    // 0 status 500, 1 transport error, 2 body stalls until cancelled
}

func verifVODScript(nseg int) *vScript { return verifVODStream(nseg, "", true) }

// verifVODStream builds a VOD fMP4 media playlist with its init and segments; prefix names the files.
func verifVODStream(nseg int, prefix string, video bool) *vScript {
	var codec fmp4.Codec = &fmp4.CodecOpus{ChannelCount: 2}
	rate := 48000
	if video {
		codec = &fmp4.CodecH264{SPS: verifTestSPS, PPS: []byte{8}}
		rate = 90000
	}
	in := &fmp4.Init{Tracks: []*fmp4.InitTrack{{ID: 1, TimeScale: uint32(rate), Codec: codec}}}
	s := &vScript{initBytes: verifMarshalInit(in), faultAt: -1}
	vod := playlist.MediaPlaylistType(playlist.MediaPlaylistTypeVOD)
	s.pl = &playlist.Media{Version: 7, TargetDuration: 2, PlaylistType: &vod, Endlist: true, Map: &playlist.MediaMap{URI: prefix + "init.mp4"}}
	for i := 0; i < nseg; i++ {
		pay := []byte{0xA0, byte(i)}
		if video {
			pay = verifH264Payload(byte(i))
		}
		p := &fmp4.Part{SequenceNumber: uint32(i), Tracks: []*fmp4.PartTrack{{ID: 1, BaseTime: uint64(i) * uint64(rate),
			Samples: []*fmp4.PartSample{{Duration: uint32(rate), Payload: pay}}}}}
		s.segBytes = append(s.segBytes, verifMarshalParts([]*fmp4.Part{p}))
		s.pl.Segments = append(s.pl.Segments, &playlist.MediaSegment{Duration: time.Second, URI: prefix + "seg" + itoaSmall(i) + ".mp4"})
	}
	return s
}

func (s *vScript) respond(req *http.Request) (*http.Response, error) {
	if s.faultAt >= 0 && containsStr(req.URL.String(), s.faultURL) {
		if !verifSymbolic() {
			time.Sleep(300 * time.Millisecond) // native replay: let the other routines reach their waiting points first
		}
		switch s.faultKind {
		case 0:
			return &http.Response{StatusCode: 500, Body: io.NopCloser(&vStallBody{})}, nil
		case 1:
			return nil, &verifHTTPError{"connection refused"}
		default:
			return &http.Response{StatusCode: 200, Body: &vStallBody{ctx: req.Context()}}, nil
		}
	}
	return nil, nil
}

// VerifH_C12_client
func VerifH_C12_client() {
	verifReqLog, verifPlaylists = nil, nil
	verifPartLog, verifInitLog = nil, nil
	nseg := 1 + verifChoice("nsegs", 2)
	multi := verifParam("MULTI", 0) == 1 // multivariant playlist with a separate audio rendition
	sc := verifVODStream(nseg, "v", true)
	var au *vScript
	uri := "http://host.example/vod/stream.m3u8"
	nreq := 2 + nseg
	var mvBlob []byte
	if multi {
		au = verifVODStream(nseg, "a", false)
		auri := "audio.m3u8"
		mv := &playlist.Multivariant{Version: 7, Variants: []*playlist.MultivariantVariant{{Bandwidth: 1000, Codecs: []string{"avc1.42c028", "opus"}, URI: "stream.m3u8", Audio: "aud"}},
			Renditions: []*playlist.MultivariantRendition{{Type: playlist.MultivariantRenditionTypeAudio, GroupID: "aud", Name: "english", Language: "en", Default: true, URI: &auri}}}
		mvBlob = verifPlaylistBlob(mv)
		uri = "http://host.example/vod/index.m3u8"
		nreq = 1 + 2*(2+nseg)
	}
	_ = nreq
	targets := []string{"/stream.m3u8", "vinit.mp4", "vseg0.mp4", "vseg1.mp4"}
	if multi {
		targets = append(targets, "/index.m3u8", "/audio.m3u8", "ainit.mp4", "aseg0.mp4", "aseg1.mp4")
	}
	if verifBool("fault") {
		sc.faultAt = verifChoice("faultat", len(targets)) // every request of the session (a segment beyond the last one is never requested)
		sc.faultURL = targets[sc.faultAt]
		sc.faultKind = verifChoice("faultkind", 3)
	}
	tracksErr := verifBool("ontrackserror")
	plBlob := verifPlaylistBlob(sc.pl)
	var aplBlob []byte
	if multi {
		aplBlob = verifPlaylistBlob(au.pl)
	}
	verifResponder = func(req *http.Request) (int, []byte, error) {
		u := req.URL.String()
		switch {
		case containsStr(u, "index.m3u8"):
			return 200, mvBlob, nil
		case containsStr(u, "audio.m3u8"):
			return 200, aplBlob, nil
		case containsStr(u, ".m3u8"):
			return 200, plBlob, nil
		case containsStr(u, "vinit.mp4"):
			return 200, sc.initBytes, nil
		case containsStr(u, "ainit.mp4"):
			return 200, au.initBytes, nil
		}
		i := int(u[len(u)-5] - '0')
		if containsStr(u, "/aseg") {
			return 200, au.segBytes[i], nil
		}
		return 200, sc.segBytes[i], nil
	}
	verifFaultHook = sc.respond
	waitReturned := false
	lateCallback := false
	delivered := 0
	var onTracksErr error
	if tracksErr {
		onTracksErr = &verifHTTPError{"tracks rejected"}
	}
	c := &Client{URI: uri, HTTPClient: &http.Client{Transport: verifRoundTripper{}},
		OnDownloadPrimaryPlaylist: func(string) { lateCallback = lateCallback || waitReturned },
		OnDownloadStreamPlaylist:  func(string) { lateCallback = lateCallback || waitReturned },
		OnDownloadSegment:         func(string) { lateCallback = lateCallback || waitReturned },
		OnDownloadPart:            func(string) {},
		OnDecodeError:             func(error) {},
	}
	c.OnTracks = func(tracks []*Track) error {
		lateCallback = lateCallback || waitReturned
		for _, t := range tracks {
			if _, isV := t.Codec.(*codecs.H264); isV {
				c.OnDataH26x(t, func(pts int64, dts int64, au [][]byte) {
					lateCallback = lateCallback || waitReturned
					delivered++
				})
			} else {
				c.OnDataOpus(t, func(pts int64, packets [][]byte) {
					lateCallback = lateCallback || waitReturned
					delivered++
				})
			}
		}
		return onTracksErr
	}
	err := c.Start()
	verifAssert("C12", "start-succeeds", err == nil)
	doClose := verifBool("close")
	if doClose {
		verifYield() // the scheduler decides (symbolically) how far the client gets before Close
		c.Close()
		c.Close() // any number of times
	}
	if !doClose && sc.faultAt >= 0 && sc.faultKind == 2 {
		// a body that stalls until cancelled: only Close can end it
		verifQuiesce()
		c.Close()
		doClose = true
	}
	var werr error
	if verifSymbolic() {
		werr = <-c.Wait()
	} else {
		select {
		case werr = <-c.Wait():
		case <-time.After(3 * time.Second):
			verifFail("C12", "wait-yields-an-error")
			return
		}
	}
	waitReturned = true
	verifReach("wait-yielded")
	verifAssert("C12", "wait-yields-an-error", werr != nil)
	if !doClose {
		switch {
		case tracksErr && sc.faultAt < 0:
			verifAssert("C12", "ontracks-error-surfaced", werr == onTracksErr)
		case !multi && sc.faultAt >= 0 && sc.faultAt < 2+nseg && sc.faultKind < 2 && !(tracksErr && sc.faultAt >= 2):
			verifAssert("C12", "http-failure-surfaced", werr != ErrClientEOS && werr.Error() != "terminated")
		case sc.faultAt < 0 && !tracksErr:
			verifReach("eos")
			verifAssert("C12", "ends-with-eos", werr == ErrClientEOS)
			verifAssert("C12", "every-sample-delivered-before-eos", delivered == nseg || (multi && delivered == 2*nseg))
		}
	}
	verifQuiesce()
	verifAssert("C12", "no-goroutine-left-after-wait", verifLiveThreads() == 0)
	verifAssert("C12", "no-callback-after-wait", !lateCallback)
	select {
	case <-c.Wait():
		verifFail("C12", "exactly-one-error")
	default:
	}
	verifReach("end")
}
