//go:build verif

package gohlslib

import (
	"context"
	"net/http"
	"sync/atomic"
	"time"

	"github.com/bluenviron/gohlslib/v2/pkg/playlist"
)

// VerifH_C12_lowlatency: the real Low-Latency downloader loop (blocking playlist reloads + preload hints) against a
// scripted server; one request - a preload hint or a playlist reload, chosen symbolically - never completes (the
// server holds the response, or stalls in its body, until the request is cancelled, as an LL-HLS origin does for a
// part that is not ready). Termination (Close cancels the routine's context) must still make the routine return.
func VerifH_C12_lowlatency() {
	verifReqLog, verifPlaylists = nil, nil
	mk := func(k int) *playlist.Media {
		return &playlist.Media{MediaSequence: 5, TargetDuration: 2, ServerControl: &playlist.MediaServerControl{CanBlockReload: true},
			Segments:    []*playlist.MediaSegment{{Duration: time.Second, URI: "s0.mp4"}},
			PreloadHint: &playlist.MediaPreloadHint{URI: "part" + itoaSmall(k) + ".mp4"}}
	}
	d := verifDownloader(mk(0))
	stallAt := verifChoice("stallat", 4) // index of the request that never completes: hint, playlist, hint, playlist
	inBody := verifBool("stallinbody")
	n, k := 0, 0
	verifFaultHook = func(req *http.Request) (*http.Response, error) {
		i := n
		n++
		if i != stallAt {
			return nil, nil
		}
		if inBody {
			return &http.Response{StatusCode: 200, Body: &vStallBody{ctx: req.Context()}, Header: make(http.Header), Request: req}, nil
		}
		<-req.Context().Done()
		return nil, &verifHTTPError{"context canceled"}
	}
	defer func() { verifFaultHook = nil }()
	verifResponder = func(req *http.Request) (int, []byte, error) {
		if containsStr(req.URL.String(), ".m3u8") {
			k++
			return 200, verifPlaylistBlob(mk(k)), nil
		}
		return 200, []byte{'P', byte(k)}, nil
	}
	ctx, cancel := context.WithCancel(context.Background())
	var returned atomic.Bool
	go func() {
		d.runLowLatency(ctx) //nolint:errcheck
		returned.Store(true)
	}()
	verifQuiesce()
	verifReach("stalled")
	verifAssert("C12", "downloader-waits-for-the-held-response", !returned.Load())
	cancel() // what Close does to every routine of the client
	if verifSymbolic() {
		verifQuiesce()
	} else {
		for i := 0; i < 50 && !returned.Load(); i++ {
			time.Sleep(20 * time.Millisecond)
		}
	}
	verifAssert("C12", "downloader-returns-after-cancellation", returned.Load())
	verifReach("end")
}
