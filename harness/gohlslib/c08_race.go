//go:build verif

package gohlslib

// C08 — one writer + concurrent HTTP readers.
// Symbolic build: every request kind runs as its own thread between the writer's writes; the
// engine logs each heap access with the locks held and reports lock-set race candidates
// (writer access vs reader access to the same cell, one a write, no common lock, not ordered by
// thread creation). Native build: the candidates are confirmed with the Go race detector by a
// real writer goroutine against real reader goroutines.

import (
	"sync"
	"time"
)

func verifC08URLs(m *Muxer, sid string) []string {
	urls := []string{"index.m3u8", sid + "_stream.m3u8", "unknown.mp4"}
	st := verifLLState(m, sid)
	if st != nil {
		if st.pl.Map != nil {
			urls = append(urls, st.pl.Map.URI)
		}
		for _, s := range st.pl.Segments {
			if !s.Gap {
				urls = append(urls, s.URI)
			}
			for _, p := range s.Parts {
				urls = append(urls, p.URI)
			}
		}
		for _, p := range st.pl.Parts {
			urls = append(urls, p.URI)
		}
		if st.pl.PreloadHint != nil {
			urls = append(urls, st.pl.PreloadHint.URI)
		}
	}
	return urls
}

func verifC08Muxer() (*Muxer, *Track, string) {
	variant := MuxerVariant(verifParam("VARIANT", 3))
	tr := verifVideoTrack()
	segCount := 3
	if variant == MuxerVariantLowLatency {
		segCount = 7
	}
	m := &Muxer{Variant: variant, SegmentCount: segCount, SegmentMinDuration: time.Duration(verifParam("SEGMIN_MS", 1000)) * time.Millisecond,
		PartMinDuration: 200 * time.Millisecond, Tracks: []*Track{tr}, Directory: verifDirectory(), OnEncodeError: func(error) {}}
	err := m.Start()
	verifAssert("*", "start-accepts-configuration", err == nil)
	sid := "video1"
	if variant == MuxerVariantMPEGTS {
		sid = "main"
	}
	return m, tr, sid
}

// VerifH_C08_race (symbolic): K writes incl. parameter changes; after a symbolic number of
// writes, one reader thread per URL kind is started; the writer then continues. Panics in any
// thread and lock-set race candidates are the findings.
func VerifH_C08_race() {
	verifPartLog, verifInitLog, verifMediaLog, verifMultiLog, verifTSLog = nil, nil, nil, nil, nil
	if verifSymbolic() {
		verifFSReset()
	}
	m, tr, sid := verifC08Muxer()
	wr := &vWriter{m: m, tr: tr}
	K := verifParam("K", 4)
	pre := 2 + verifChoice("prewrites", K-1)
	for i := 0; i < pre && i < K; i++ {
		wr.writeKinds()
	}
	for _, u := range verifC08URLs(m, sid) {
		u := u
		go func() { verifGet(m, u) }()
	}
	verifQuiesce()
	for i := pre; i < K; i++ {
		wr.writeKinds()
	}
	verifQuiesce()
	m.Close()
	verifQuiesce()
	verifReach("end")
}

// writeKinds: like write, with parameter changes as a third kind.
func (w *vWriter) writeKinds() {
	kind := 0
	if verifParam("ALLIDR", 0) == 0 {
		kind = verifChoice("vkind", 3)
	}
	if w.k > 0 {
		w.dts += verifRangeI64("vdelta", 1, 1<<18)
	}
	var au [][]byte
	switch {
	case kind == 2:
		sps := verifTestSPS
		if w.k%2 == 1 {
			sps = verifTestSPS2
		}
		au = [][]byte{sps, {8, byte(w.k + 1)}, {5, byte(w.k)}}
	case kind == 0 || w.k == 0:
		au = [][]byte{verifTestSPS, {5, byte(w.k)}}
	default:
		au = [][]byte{{1, byte(w.k)}}
	}
	err := w.m.WriteH264(w.tr, verifNTPBase.Add(time.Duration(w.k)*time.Second), w.dts, au)
	verifAssume(err == nil)
	w.k++
}

// VerifN_C08_race (native, built with -race): a real writer against real readers of every URL kind.
func VerifN_C08_race() {
	m, tr, sid := verifC08Muxer()
	stop := make(chan struct{})
	var wg sync.WaitGroup
	for r := 0; r < 4; r++ {
		wg.Add(1)
		go func(r int) {
			defer wg.Done()
			for i := 0; ; i++ {
				select {
				case <-stop:
					return
				default:
				}
				urls := []string{"index.m3u8", "unknown.mp4"}
				if i > 3 {
					urls = verifC08URLs(m, sid)
				}
				for j, u := range urls {
					if (j+r)%2 == 0 || len(urls) < 4 {
						if len(u) > 5 && u[len(u)-5:] == ".m3u8" && i < 3 {
							continue // would block before the first content
						}
						verifGet(m, u)
					}
				}
			}
		}(r)
	}
	dts := int64(0)
	for k := 0; k < 400; k++ {
		var au [][]byte
		switch {
		case k%30 == 0:
			sps := verifTestSPS
			if (k/30)%2 == 1 {
				sps = verifTestSPS2
			}
			au = [][]byte{sps, {8, byte(k/30 + 1)}, {5, byte(k)}}
		case k%10 == 0:
			au = [][]byte{verifTestSPS, {5, byte(k)}}
		default:
			au = [][]byte{{1, byte(k)}}
		}
		dts += 9000
		m.WriteH264(tr, verifNTPBase.Add(time.Duration(k)*100*time.Millisecond), dts, au) //nolint:errcheck
		if k%7 == 0 {
			time.Sleep(time.Millisecond)
		}
	}
	close(stop)
	m.Close()
	wg.Wait()
}
