//go:build verif

package gohlslib

// C15 — the request's query string travels into quoted URI attributes of every playlist the muxer serves.

// VerifH_C15_query: the real filterOutHLSParams (net/url ParseQuery / Encode interpreted from source) on PREFIX + L
// arbitrary bytes of the printable ASCII range a request target can carry: what comes back is appended to URIs inside
// quoted-strings and to URI lines, so it must not contain a double quote or a line break.
func VerifH_C15_query() {
	L := verifParam("L", 3)
	prefixes := []string{"", "t=", "_HLS_msn=1&"}
	q := prefixes[verifChoice("prefix", len(prefixes))] + verifSymString("q", L)
	for i := 0; i < len(q); i++ {
		verifAssume(q[i] >= 0x21 && q[i] <= 0x7e && q[i] != '#')
	}
	out := filterOutHLSParams(q)
	verifReach("filtered")
	for i := 0; i < len(out); i++ {
		verifAssert("C15", "query-safe-inside-quoted-string", out[i] != '"' && out[i] != '\n' && out[i] != '\r')
	}
}
