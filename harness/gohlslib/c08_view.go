//go:build verif

package gohlslib

// C08 / C04 — each response is a snapshot of one muxer state: a media-playlist request that
// races a segment rotation (symbolic preemption at every synchronisation point inside the
// rotation) must still satisfy the single-playlist invariants.

import (
	"sync"
	"sync/atomic"
	"time"

	"github.com/bluenviron/gohlslib/v2/pkg/playlist"
)

func VerifH_C08_view() {
	if verifSymbolic() {
		verifViewOnce(0)
		return
	}
	// native replay: two ways of forcing "a request observes the muxer in the middle of a rotation" are tried, each
	// on a fresh muxer fed with the same model values; the first one that breaks an assertion ends the replay.
	for mode := 1; mode <= 2; mode++ {
		verifNativeRestart()
		verifViewOnce(mode)
		if verifNativeFailed() {
			return
		}
	}
}

// verifViewOnce: mode 0 = symbolic (request thread + symbolic preemption inside the rotation);
// mode 1 = native, request parked at the entry of the playlist generator, writer parked at the scheduling point inside
// rotateSegments (reachable only if the generator runs without the muxer lock);
// mode 2 = native, writer parked inside the OnEncodeError callback of the rotation, request issued meanwhile
// (it can complete only if the callback is invoked without the muxer lock).
func verifViewOnce(mode int) {
	verifPartLog, verifInitLog, verifMediaLog, verifMultiLog, verifTSLog = nil, nil, nil, nil, nil
	if verifSymbolic() {
		verifFSReset()
	}
	m, tr, sid := verifC08Muxer()
	wr := &vWriter{m: m, tr: tr}
	pre := verifParam("PRE", 5) // enough key frames to fill the window, so that the rotation also evicts
	for i := 0; i < pre; i++ {
		wr.writeIDR(int64(90000 * (1 + verifChoice("step", 2))))
	}
	var resp *verifRW
	var done atomic.Bool
	switch mode {
	case 0:
		go func() {
			resp = verifGet(m, sid+"_stream.m3u8")
			done.Store(true)
		}()
		wr.writeIDR(int64(90000 * (1 + 2*verifChoice("racestep", 2)))) // rotation (possibly with a longer segment: target duration grows), racing the request
		verifQuiesce()
	case 1:
		// In a correct muxer the generator runs under the muxer lock, so the writer cannot get to its scheduling
		// point and the wait below simply times out.
		st := m.streams[0]
		orig := st.generateMediaPlaylist
		atGen := make(chan struct{})
		release := make(chan struct{})
		var once sync.Once
		st.generateMediaPlaylist = func(isDeltaUpdate bool, rawQuery string) ([]byte, error) {
			once.Do(func() { close(atGen); <-release })
			return orig(isDeltaUpdate, rawQuery)
		}
		midRotation := make(chan struct{})
		var onceW sync.Once
		verifHookFn = func(p string) {
			if p == "rotateSegments:appended" {
				onceW.Do(func() { close(midRotation); time.Sleep(200 * time.Millisecond) })
			}
		}
		defer func() { verifHookFn = nil }()
		reqDone := make(chan struct{})
		go func() {
			resp = verifGet(m, sid+"_stream.m3u8")
			done.Store(true)
			close(reqDone)
		}()
		<-atGen
		racestep := verifChoice("racestep", 2)
		wDone := make(chan struct{})
		go func() { wr.writeIDR(int64(90000 * (1 + 2*racestep))); close(wDone) }()
		select {
		case <-midRotation:
		case <-time.After(300 * time.Millisecond):
		}
		close(release)
		<-reqDone
		<-wDone
	case 2:
		// In a correct muxer the callback is invoked with the muxer lock held: the request blocks until the
		// callback gives up waiting and then sees the completed rotation.
		inCb := make(chan struct{})
		cbRelease := make(chan struct{})
		var once sync.Once
		for _, st := range m.streams {
			st.onEncodeError = func(error) {
				once.Do(func() {
					close(inCb)
					select {
					case <-cbRelease:
					case <-time.After(400 * time.Millisecond):
					}
				})
			}
		}
		racestep := verifChoice("racestep", 2)
		wDone := make(chan struct{})
		go func() { wr.writeIDR(int64(90000 * (1 + 2*racestep))); close(wDone) }()
		reqDone := make(chan struct{})
		request := func() {
			resp = verifGet(m, sid+"_stream.m3u8")
			done.Store(true)
			close(reqDone)
		}
		select {
		case <-inCb:
			go request()
			select {
			case <-reqDone:
			case <-time.After(300 * time.Millisecond):
			}
			close(cbRelease)
		case <-wDone: // the rotation did not call back (the target duration did not grow)
			go request()
		}
		<-reqDone
		<-wDone
	}
	verifReach("raced")
	verifAssert("C08", "request-completes", done.Load())
	if !done.Load() || resp.code != 200 {
		return
	}
	var pl playlist.Media
	if pl.Unmarshal(resp.body) != nil {
		verifFail("C08", "response-is-a-playlist")
		return
	}
	segCount := m.SegmentCount
	verifAssert("C08", "snapshot-lists-at-most-segmentcount", len(pl.Segments) <= segCount)
	verifAssert("C04", "snapshot-lists-at-most-segmentcount", len(pl.Segments) <= segCount)
	// the number in each URI equals its media sequence number: MSN and window belong to the same state
	for i, s := range pl.Segments {
		if s.Gap {
			continue
		}
		verifAssert("C08", "snapshot-msn-matches-uris", verifNumberAfter(s.URI, "_seg") == pl.MediaSequence+i)
		verifAssert("C04", "snapshot-msn-matches-uris", verifNumberAfter(s.URI, "_seg") == pl.MediaSequence+i)
		verifAssert("C08", "snapshot-target-covers-extinf", pl.TargetDuration >= int((s.Duration+500*time.Millisecond)/time.Second))
	}
	verifReach("end")
}

func (w *vWriter) writeIDR(delta int64) {
	if w.k > 0 {
		w.dts += delta
	}
	err := w.m.WriteH264(w.tr, verifNTPBase.Add(time.Duration(w.k)*time.Second), w.dts, [][]byte{verifTestSPS, {5, byte(w.k)}})
	verifAssume(err == nil)
	w.k++
}
