//go:build verif

package gohlslib

// Bounded-run harness of the real Muxer (C01-C05, C18; shared by C16): the real Start and K
// real Write* calls with symbolic timestamps / key-frame placement / parameter changes; after
// every write the served playlists, init files, segments and parts are fetched through the
// real Muxer.Handle and compared with a ghost model written from the property statements.

import (
	"bytes"
	"encoding/hex"
	"net/http"
	"net/url"
	"os"
	"strconv"
	"strings"
	"time"

	"github.com/bluenviron/gohlslib/v2/pkg/codecs"
	"github.com/bluenviron/gohlslib/v2/pkg/playlist"
	"github.com/bluenviron/mediacommon/v2/pkg/codecs/mpeg4audio"
	"github.com/bluenviron/mediacommon/v2/pkg/formats/fmp4"
	"github.com/bluenviron/mediacommon/v2/pkg/formats/mpegts"
)

// ---------- HTTP plumbing ----------

type verifRW struct {
	code int
	hdr  http.Header
	body []byte
}

func (w *verifRW) Header() http.Header         { return w.hdr }
func (w *verifRW) WriteHeader(c int)           { w.code = c }
func (w *verifRW) Write(p []byte) (int, error) { w.body = append(w.body, p...); return len(p), nil }

func verifGet(m *Muxer, pathAndQuery string) *verifRW {
	u, _ := url.Parse("http://localhost/" + pathAndQuery)
	w := &verifRW{hdr: make(http.Header)}
	m.Handle(w, &http.Request{URL: u})
	if w.code == 0 && len(w.body) > 0 {
		w.code = 200
	}
	return w
}

// ---------- ghost model ----------

type vUnit struct {
	track   int
	k       int
	payload []byte // what a decoder must return for this unit
	raw     []byte // the written NAL units / access unit bytes, concatenated
	dts     int64  // written DTS, track clock
	ptsOff  int64
	sync    bool
	ra      bool // random access unit of the leading track
	changed bool // carries changed parameters (pending change resolved at this unit)
	ntp     time.Time
}

type vEmitted struct {
	u   *vUnit
	dur int64
	seg int
}

type vSeg struct {
	start, end time.Duration
	ntp        time.Time
	forced     bool
	first      *vUnit
}

type vTrack struct {
	rate    int
	video   bool
	leading bool
	stream  int // index of the stream (playlist) carrying the track
	idInStr int // 1-based fragment track id inside that stream
	held    *vUnit
	emitted []vEmitted
	lastDTS int64
	hasDTS  bool
}

type vGhost struct {
	variant   MuxerVariant
	segMin    time.Duration
	segCount  int
	tracks    []*vTrack
	started   bool
	open      *vSeg
	segs      []*vSeg // completed
	pending   bool    // parameter change seen since the last random access unit
	pps       []byte  // current parameter set
	sps       []byte
	ppsAtInit []byte
	tsAUCount int
	openSize  int    // fMP4, single stream: media payload bytes already written into the open segment
	maxSize   uint64 // SegmentMaxSize when the size rule is checked (0 = not checked)
}

func verifTs2Dur(v int64, rate int) time.Duration { return timestampToDuration(v, rate) }

func (g *vGhost) offset(t *vTrack) int64 {
	if g.variant == MuxerVariantMPEGTS {
		return 0
	}
	return int64(10 * t.rate)
}

func (g *vGhost) lead() *vTrack {
	for _, t := range g.tracks {
		if t.leading {
			return t
		}
	}
	return nil
}

// accept applies one accepted unit to the ghost; returns whether the specification demands a cut.
func (g *vGhost) accept(u *vUnit) (cut bool) {
	t := g.tracks[u.track]
	if g.variant == MuxerVariantMPEGTS {
		now := verifTs2Dur(u.dts, t.rate)
		if t.leading {
			if !g.started {
				g.started = true
				g.open = &vSeg{start: now, ntp: u.ntp, first: u}
			} else {
				due := now-g.open.start >= g.segMin
				if t.video {
					cut = u.ra && (due || u.changed)
				} else {
					cut = g.tsAUCount >= mpegtsSegmentMinAUCount && due
				}
				if cut {
					g.open.end = now
					g.segs = append(g.segs, g.open)
					g.open = &vSeg{start: now, ntp: u.ntp, first: u}
					g.tsAUCount = 0
				}
			}
			if !t.video {
				g.tsAUCount++
			}
		} else if !g.started {
			return false
		}
		t.emitted = append(t.emitted, vEmitted{u: u, seg: len(g.segs)})
		return cut
	}
	p := t.held
	t.held = u
	if p == nil {
		return false
	}
	off := g.offset(t)
	if t.leading {
		if !g.started {
			g.started = true
			g.open = &vSeg{start: verifTs2Dur(p.dts+off, t.rate), ntp: p.ntp, first: p}
		}
	} else if !g.started {
		return false
	}
	t.emitted = append(t.emitted, vEmitted{u: p, dur: u.dts - p.dts, seg: len(g.segs)})
	g.openSize += len(p.payload)
	if t.leading {
		now := verifTs2Dur(u.dts+off, t.rate)
		if u.ra && (u.changed || now-g.open.start >= g.segMin) {
			cut = true
			g.open.end = now
			g.segs = append(g.segs, g.open)
			g.open = &vSeg{start: now, ntp: u.ntp, first: u, forced: u.changed}
			g.openSize = 0
		}
	}
	return cut
}

// ---------- configuration ----------

// a second valid SPS for in-band parameter changes: the test SPS with level 4.1 instead of 4.0 (same
// resolution, still without picture order count, so that simple access units stay decodable natively)
var verifTestSPS2 = []byte{
	0x67, 0x42, 0xc0, 0x29, 0xd9, 0x00, 0x78, 0x02, 0x27, 0xe5, 0x84, 0x00, 0x00, 0x03, 0x00, 0x04,
	0x00, 0x00, 0x03, 0x00, 0xf0, 0x3c, 0x60, 0xc9, 0x20,
}

var verifTestSPS = []byte{
	0x67, 0x42, 0xc0, 0x28, 0xd9, 0x00, 0x78, 0x02,
	0x27, 0xe5, 0x84, 0x00, 0x00, 0x03, 0x00, 0x04,
	0x00, 0x00, 0x03, 0x00, 0xf0, 0x3c, 0x60, 0xc9,
	0x20,
}

// Parameter sets of the other video codecs (VCODEC: 0 H264, 1 H265, 2 VP9, 3 AV1): valid test vectors of
// mediacommon, so that the native replay goes through the real parsers.
var verifH265VPS = []byte{
	0x40, 0x01, 0x0c, 0x01, 0xff, 0xff, 0x02, 0x20, 0x00, 0x00, 0x03, 0x00, 0xb0, 0x00, 0x00, 0x03,
	0x00, 0x00, 0x03, 0x00, 0x7b, 0x18, 0xb0, 0x24,
}

// two H265 SPS without picture reordering (the real DTS extractor then returns dts = pts)
var verifH265SPS = []byte{
	0x42, 0x01, 0x01, 0x04, 0x08, 0x00, 0x00, 0x03, 0x00, 0x98, 0x08, 0x00, 0x00, 0x03, 0x00, 0x00,
	0x5d, 0x90, 0x00, 0x50, 0x10, 0x05, 0xa2, 0x29, 0x4b, 0x74, 0x94, 0x98, 0x5f, 0xfe, 0x00, 0x02,
	0x00, 0x02, 0xd4, 0x04, 0x04, 0x04, 0x10, 0x00, 0x00, 0x03, 0x00, 0x10, 0x00, 0x00, 0x03, 0x01,
	0xe0, 0x80,
}

var verifH265SPS2 = []byte{
	0x42, 0x01, 0x01, 0x01, 0x40, 0x00, 0x00, 0x03, 0x00, 0x00, 0x03, 0x00, 0x00, 0x03, 0x00, 0x00,
	0x03, 0x00, 0x7b, 0xa0, 0x03, 0xc0, 0x80, 0x11, 0x07, 0xcb, 0x96, 0xb4, 0xa4, 0x25, 0x92, 0xe3,
	0x01, 0x6a, 0x02, 0x02, 0x02, 0x08, 0x00, 0x00, 0x03, 0x00, 0x08, 0x00, 0x00, 0x03, 0x01, 0xe3,
	0x00, 0x2e, 0xf2, 0x88, 0x00, 0x07, 0x27, 0x0c, 0x00, 0x00, 0x98, 0x96, 0x82,
}

// H265 PPS number n: the default PPS followed by a distinguishing byte (the parser reads the leading fields only)
func verifH265PPS(n int) []byte { return []byte{0x44, 0x01, 0xc1, 0x72, 0xb4, 0x62, 0x40, byte(n)} }

// two VP9 key-frame headers (1920x804 and 3840x2160, profile 0, 8 bit, 4:2:0)
var verifVP9Key = []byte{
	0x82, 0x49, 0x83, 0x42, 0x00, 0x77, 0xf0, 0x32, 0x34, 0x30, 0x38, 0x24, 0x1c, 0x19, 0x40, 0x18,
	0x03, 0x40, 0x5f, 0xb4,
}

var verifVP9Key2 = []byte{
	0x82, 0x49, 0x83, 0x42, 0x40, 0xef, 0xf0, 0x86, 0xf4, 0x04, 0x21, 0xa0, 0xe0, 0x00, 0x30, 0x70,
	0x00, 0x00, 0x00, 0x01,
}

// two AV1 sequence header OBUs
var verifAV1Seq = []byte{10, 11, 0, 0, 0, 66, 167, 191, 228, 96, 13, 0, 64}
var verifAV1Seq2 = []byte{10, 11, 0, 0, 0, 66, 167, 191, 230, 46, 223, 200, 66}

// High-profile SPS with picture reordering (pic_order_cnt_type 0) of mediacommon's DTS extractor test vector
var verifBFrameSPS = []byte{
	0x67, 0x64, 0x00, 0x28, 0xac, 0xd9, 0x40, 0x78, 0x02, 0x27, 0xe5, 0x84, 0x00, 0x00, 0x03, 0x00,
	0x04, 0x00, 0x00, 0x03, 0x00, 0xf0, 0x3c, 0x60, 0xc6, 0x58,
}

func verifVideoTrack() *Track {
	if verifParam("BFRAMES", 0) == 1 {
		return &Track{Codec: &codecs.H264{SPS: verifBFrameSPS, PPS: []byte{0x08}}, ClockRate: 90000}
	}
	switch verifParam("VCODEC", 0) {
	case 1:
		if verifParam("H265SPS", 1) == 2 {
			return &Track{Codec: &codecs.H265{VPS: verifH265VPS, SPS: verifH265SPS2, PPS: verifH265PPS(0)}, ClockRate: 90000}
		}
		return &Track{Codec: &codecs.H265{VPS: verifH265VPS, SPS: verifH265SPS, PPS: verifH265PPS(0)}, ClockRate: 90000}
	case 2:
		return &Track{Codec: &codecs.VP9{Width: 1920, Height: 804, Profile: 0, BitDepth: 8, ChromaSubsampling: 1}, ClockRate: 90000}
	case 3:
		return &Track{Codec: &codecs.AV1{SequenceHeader: verifAV1Seq}, ClockRate: 90000}
	}
	return &Track{Codec: &codecs.H264{SPS: verifTestSPS, PPS: []byte{8, 0}}, ClockRate: 90000}
}

func verifIsVideoCodec(c codecs.Codec) bool {
	switch c.(type) {
	case *codecs.H264, *codecs.H265, *codecs.VP9, *codecs.AV1:
		return true
	}
	return false
}

func verifAudioTrack(name string) *Track {
	// ACLOCK: a track clock rate different from the codec's sample rate (e.g. what an MPEG-TS source hands out)
	return &Track{Codec: &codecs.MPEG4Audio{Config: mpeg4audio.Config{Type: 2, SampleRate: 44100, ChannelCount: 2}},
		ClockRate: verifParam("ACLOCK", 44100), Name: name}
}

type vRun struct {
	m       *Muxer
	g       *vGhost
	tracks  []*Track
	streams []string // stream ids in muxer order
	base    uint64   // first media sequence number of a real segment
	obs     []*vStreamObs
	k       int
	sawTiny bool // native replay only: two consecutive units of a track carry the same DTS (zero-length segments / parts possible)
}

type vHist struct {
	uri string
	dur time.Duration
	gap bool
	set bool
}

type vStreamObs struct {
	id        string
	tracks    []int // ghost track indexes carried by this stream, in fragment-id order
	hist      map[int]*vHist
	bodies    map[string][]byte
	owner     map[string]int
	lastMSN   int
	lastTD    int
	seen      bool
	decoded   int   // number of real segments already decoded
	nextBase  []uint64 // expected BaseTime of the next fragment per track
	haveBase  []bool
	taken     []int // emitted units already matched, per track
	lastPartT time.Duration
}

// verifSetup builds the muxer for the chosen layout. TRACKS: 0 = H264, 1 = H264+AAC, 2 = AAC, 3 = AAC+AAC
func verifSetup() *vRun {
	variant := MuxerVariant(verifParam("VARIANT", 2))
	layout := verifParam("TRACKS", 0)
	r := &vRun{}
	g := &vGhost{variant: variant, pps: []byte{8, 0}, sps: verifTestSPS}
	if verifParam("BFRAMES", 0) == 1 {
		g.sps, g.pps = verifBFrameSPS, []byte{0x08}
	}
	switch verifParam("VCODEC", 0) {
	case 1:
		g.sps, g.pps = verifH265SPS, verifH265PPS(0)
	case 2:
		g.sps, g.pps = verifVP9Key, nil
	case 3:
		g.sps, g.pps = verifAV1Seq, nil
	}
	switch layout {
	case 0:
		r.tracks = []*Track{verifVideoTrack()}
	case 1:
		r.tracks = []*Track{verifVideoTrack(), verifAudioTrack("")}
	case 2:
		r.tracks = []*Track{verifAudioTrack("")}
	case 3:
		r.tracks = []*Track{verifAudioTrack("a"), verifAudioTrack("b")}
	case 4:
		r.tracks = []*Track{{Codec: &codecs.Opus{ChannelCount: 2}, ClockRate: 48000}}
	case 5: // the audio track listed before the video track: the video track still leads
		r.tracks = []*Track{verifAudioTrack(""), verifVideoTrack()}
	}
	hasVideo := layout <= 1 || layout == 5
	segCount := verifParam("SEGCOUNT", 3)
	if variant == MuxerVariantLowLatency && segCount < 7 {
		segCount = 7
	}
	g.segCount = segCount
	if verifParam("SYMSEGMIN", 1) == 1 {
		g.segMin = time.Duration(verifRangeI64("segmin", int64(time.Millisecond), int64(4*time.Second)))
	} else {
		g.segMin = time.Duration(verifParam("SEGMIN_MS", 1000)) * time.Millisecond
	}
	for i, t := range r.tracks {
		isV := verifIsVideoCodec(t.Codec)
		vt := &vTrack{rate: t.ClockRate, video: isV, leading: isV || (!hasVideo && i == 0)}
		g.tracks = append(g.tracks, vt)
	}
	r.g = g
	r.m = &Muxer{
		Variant:            variant,
		SegmentCount:       segCount,
		SegmentMinDuration: g.segMin,
		PartMinDuration:    time.Duration(verifParam("PARTMIN_MS", 200)) * time.Millisecond,
		Tracks:             r.tracks,
		Directory:          verifDirectory(),
		OnEncodeError:      func(error) {},
	}
	if mx := verifParam("SEGMAXSIZE", 0); mx != 0 {
		r.m.SegmentMaxSize = uint64(mx)
		if verifParam("SYMMAXSIZE", 0) == 1 {
			// the size rule of C18 (fMP4, single stream): an arbitrary limit; failing writes are checked, not assumed away
			r.m.SegmentMaxSize = uint64(verifRangeI64("segmaxsize", 1, int64(mx)))
			g.maxSize = r.m.SegmentMaxSize
		}
	}
	err := r.m.Start()
	verifAssert("*", "start-accepts-configuration", err == nil)
	if err != nil {
		verifStopPath()
	}
	if variant == MuxerVariantLowLatency {
		// number of initial gap entries = the number the first real segment is given (URI number = media sequence
		// number is checked against the served playlists; the statement does not fix the count itself)
		r.base = r.m.streams[0].nextSegmentID
	}
	verifFreezePartDuration(r.m)
	if variant == MuxerVariantMPEGTS {
		so := &vStreamObs{id: "main", hist: map[int]*vHist{}, bodies: map[string][]byte{}, owner: map[string]int{}}
		for i, t := range g.tracks {
			t.stream, t.idInStr = 0, i+1
			so.tracks = append(so.tracks, i)
		}
		r.obs = append(r.obs, so)
	} else {
		for i, t := range g.tracks {
			id := "audio" + strconv.Itoa(i+1)
			if t.video {
				id = "video" + strconv.Itoa(i+1)
			}
			t.stream, t.idInStr = i, 1
			r.obs = append(r.obs, &vStreamObs{id: id, tracks: []int{i}, hist: map[int]*vHist{}, bodies: map[string][]byte{}, owner: map[string]int{}})
		}
	}
	for _, so := range r.obs {
		so.nextBase = make([]uint64, len(so.tracks))
		so.haveBase = make([]bool, len(so.tracks))
		so.taken = make([]int, len(so.tracks))
	}
	return r
}

// verifFreezePartDuration (FREEZEPART=1, Low-Latency): the part-duration threshold is an arbitrary value
// in [PartMinDuration, 5 s] fixed for the whole run (the segmenter is told it is frozen), instead of the
// result of findCompatiblePartDuration (C19's subject). Unlike the stub, this is honoured by the native
// replay too. Only meaningful without parameter changes (they un-freeze it).
func verifFreezePartDuration(m *Muxer) {
	if m.Variant != MuxerVariantLowLatency || verifParam("FREEZEPART", 0) == 0 {
		return
	}
	m.segmenter.fmp4AdjustedPartDuration = time.Duration(verifRangeI64("partThreshold", int64(m.PartMinDuration), int64(5*time.Second)))
	m.segmenter.fmp4FreezeAdjustedPartDuration = true
}

var verifDirectoryName string

// verifDirectory: "" = RAM storage; DISK=1 selects Directory storage (the in-harness file system
// symbolically, a fresh temporary directory natively).
func verifDirectory() string {
	if verifParam("DISK", 0) == 0 {
		verifDirectoryName = ""
		return ""
	}
	if verifSymbolic() {
		verifDirectoryName = "/vfs"
	} else {
		d, err := os.MkdirTemp("", "verif-gohlslib")
		if err != nil {
			panic(err)
		}
		verifDirectoryName = d
	}
	return verifDirectoryName
}

func verifLiveFiles() int {
	if verifDirectoryName == "" {
		return 0
	}
	if verifSymbolic() {
		return len(verifFSLiveFiles())
	}
	es, err := os.ReadDir(verifDirectoryName)
	if err != nil {
		return 0
	}
	return len(es)
}


// ---------- one write ----------

var verifNTPBase = time.Date(2010, 1, 1, 1, 1, 1, 0, time.UTC)

// writeVideo performs one symbolic H264 write. kind: 0 IDR, 1 non-IDR, 2 IDR with changed PPS, 3 non-IDR with changed PPS
func (r *vRun) writeVideo(ti int) {
	g, t := r.g, r.g.tracks[ti]
	kind := verifChoice("vkind", verifParam("VKINDS", 3))
	var dts int64
	if verifParam("CONCRETE", 0) == 2 {
		// symbolic origin, frame durations from a small table
		if !t.hasDTS {
			dts = verifRangeI64("vdts0", -900000, int64(1)<<uint(verifParam("VDTS0BITS", 20)))
		} else {
			dts = t.lastDTS + []int64{3000, 4500}[verifChoice("vdeltac", 2)]
		}
	} else if verifParam("CONCRETE", 0) == 3 {
		// constant frame duration (30 fps) from 0: protocol-flow harnesses
		if t.hasDTS {
			dts = t.lastDTS + 3000
		}
	} else if verifParam("CONCRETE", 0) == 1 {
		// Low-Latency runs: frame durations from a small concrete table (the part-duration search
		// over a symbolic sample duration is C19's lemma, not this harness)
		if !t.hasDTS {
			dts = []int64{0, 270000, -450000}[verifChoice("vdts0c", 3)]
		} else {
			dts = t.lastDTS + []int64{3000, 4500, 18000}[verifChoice("vdeltac", 3)]
		}
	} else if !t.hasDTS {
		dts = verifRangeI64("vdts0", -900000, 1<<33)
	} else {
		d := verifRangeI64("vdelta", 0, 1<<21)
		verifPrefer(d >= 45000) // replayability: the real playlist parser rejects zero-length segments
		if !verifSymbolic() && d == 0 {
			r.sawTiny = true
		}
		dts = t.lastDTS + d
	}
	t.lastDTS, t.hasDTS = dts, true
	ptsOff := int64(0)
	if verifPtsOffMax > 0 {
		ptsOff = verifRangeI64("vptsoff", 0, verifPtsOffMax)
	}
	idr := kind == 0 || kind == 2 || kind == 4
	vc := verifParam("VCODEC", 0)
	ntp := verifNTPBase.Add(time.Duration(r.k) * time.Second)
	u := &vUnit{track: ti, k: r.k, dts: dts, ptsOff: ptsOff, sync: idr, ra: idr, ntp: ntp}
	au := r.buildVideoUnit(vc, kind, idr, u, int32(ptsOff))
	if idr && g.pending {
		u.changed = true
		g.pending = false
	}
	before := r.m.streams[0].nextSegmentID
	var err error
	switch vc {
	case 0:
		err = r.m.WriteH264(r.tracks[ti], ntp, dts+ptsOff, au)
	case 1:
		err = r.m.WriteH265(r.tracks[ti], ntp, dts+ptsOff, au)
	case 2:
		err = r.m.WriteVP9(r.tracks[ti], ntp, dts+ptsOff, au[0])
	case 3:
		err = r.m.WriteAV1(r.tracks[ti], ntp, dts+ptsOff, au)
	}
	// acceptance rule of the statement: the stream starts at the first random access unit;
	// fMP4 rejects (silently) units whose shifted DTS is still negative.
	accepted := true
	if !t.leading {
		accepted = true
	}
	if !r.videoStarted(ti) && !idr {
		accepted = false
	}
	if accepted {
		r.markVideoStarted(ti)
		if g.variant != MuxerVariantMPEGTS && dts+g.offset(t) < 0 {
			accepted = false
		}
	}
	if g.maxSize != 0 && g.variant != MuxerVariantMPEGTS && accepted && t.held != nil {
		// this write moves the held-back unit into the open segment: it must fail, instead of buffering, exactly when
		// that unit's payload would take the segment over SegmentMaxSize
		if uint64(g.openSize+len(t.held.payload)) > g.maxSize {
			verifReach("size-limit")
			verifAssert("C18", "write-exceeding-segmentmaxsize-fails", err != nil)
			verifStopPath()
		}
		// a write may only be refused for the size limit when the units handed over so far (the one held back and, for
		// an implementation that checks eagerly, the one being written) do not fit into the open segment
		verifAssert("C18", "write-refused-only-for-the-size-limit", err == nil || uint64(g.openSize+len(t.held.payload)+len(u.payload)) > g.maxSize)
	}
	tsSize := g.maxSize != 0 && g.variant == MuxerVariantMPEGTS
	if !tsSize {
		verifAssume(err == nil)
	}
	cut := false
	if accepted {
		cut = g.accept(u)
	}
	if tsSize && accepted {
		// MPEG-TS writes the access unit at once (into the new segment when this unit cuts): the write fails exactly
		// when the unit's NAL units do not fit into that segment any more
		if cut {
			g.openSize = 0
		}
		if uint64(g.openSize+len(u.raw)) > g.maxSize {
			verifReach("size-limit")
			verifAssert("C18", "write-exceeding-segmentmaxsize-fails", err != nil)
			verifStopPath()
		}
		verifAssert("C18", "write-refused-only-for-the-size-limit", err == nil)
		g.openSize += len(u.raw)
	}
	verifAssume(err == nil)
	after := r.m.streams[0].nextSegmentID
	r.checkCut(cut, before, after)
}

// buildVideoUnit builds the access unit / frame / temporal unit of one write for the chosen codec, updates the
// ghost's current parameter sets (g.pending when they change) and fills in the expected decoded payload.
// kind: 0 random access, 1 not, 2 random access with changed parameters (PPS / frame size / sequence header),
// 3 non-random-access unit carrying a changed PPS (H264 / H265 only), 4 random access with changed SPS.
func (r *vRun) buildVideoUnit(vc int, kind int, ra bool, u *vUnit, ptsOff int32) [][]byte {
	g := r.g
	var au [][]byte
	var ps fmp4.PartSample
	switch vc {
	case 0:
		if ra {
			sps := g.sps // the real DTS extractor needs the SPS in-band
			if kind == 4 {
				// in-band SPS change: alternate between two valid parameter sets
				if bytes.Equal(g.sps, verifTestSPS) {
					sps = verifTestSPS2
				} else {
					sps = verifTestSPS
				}
				g.pending = true
				g.sps = sps
			}
			au = append(au, sps)
		}
		if kind == 2 || kind == 3 {
			np := []byte{8, byte(r.k + 1)}
			au = append(au, np)
			if !bytes.Equal(g.pps, np) {
				g.pending = true
				g.pps = np
			}
		}
		if ra {
			au = append(au, []byte{5, byte(r.k)})
		} else {
			au = append(au, []byte{1, byte(r.k)})
		}
		ps.FillH264(ptsOff, au) //nolint:errcheck
		u.payload = ps.Payload
	case 1:
		if kind == 4 {
			if bytes.Equal(g.sps, verifH265SPS) {
				g.sps = verifH265SPS2
			} else {
				g.sps = verifH265SPS
			}
			g.pending = true
		}
		if kind == 2 || kind == 3 {
			g.pps = verifH265PPS(r.k + 1)
			g.pending = true
		}
		if ra {
			// the real DTS extractor needs SPS and PPS in-band
			au = append(au, verifH265VPS, g.sps, g.pps, []byte{19 << 1, 1, byte(r.k)})
		} else {
			if kind == 3 {
				au = append(au, g.pps)
			}
			au = append(au, []byte{1 << 1, 1, byte(r.k)})
		}
		ps.FillH265(ptsOff, au) //nolint:errcheck
		u.payload = ps.Payload
	case 2:
		if ra {
			if kind == 2 || kind == 4 {
				if bytes.Equal(g.sps, verifVP9Key) {
					g.sps = verifVP9Key2
				} else {
					g.sps = verifVP9Key
				}
				g.pending = true
			}
			f := append(append([]byte{}, g.sps...), byte(r.k))
			au = [][]byte{f}
		} else {
			au = [][]byte{{0x86, 0x00, byte(r.k)}} // frame marker, profile 0, non-key frame, shown
		}
		u.payload = au[0]
	case 3:
		if ra {
			if kind == 2 || kind == 4 {
				if bytes.Equal(g.sps, verifAV1Seq) {
					g.sps = verifAV1Seq2
				} else {
					g.sps = verifAV1Seq
				}
				g.pending = true
			}
			au = append(au, g.sps)
		}
		au = append(au, []byte{0x32, 0x02, 0x01, byte(r.k)}) // frame OBU with a size field
		ps.FillAV1(au) //nolint:errcheck
		u.payload = ps.Payload
	}
	for _, n := range au {
		u.raw = append(u.raw, n...)
	}
	return au
}

var verifVideoStarted = map[int]bool{}

func (r *vRun) videoStarted(ti int) bool { return verifVideoStarted[ti] }
func (r *vRun) markVideoStarted(ti int)  { verifVideoStarted[ti] = true }

// Opus packets whose TOC byte encodes 20 ms, 10 ms and 60 ms (SILK NB configs 1, 0, 3; one frame)
var verifOpusTOC = []byte{1 << 3, 0 << 3, 3 << 3}
var verifOpusDur = []int64{960, 480, 2880}

// writeOpus: one WriteOpus call with 1..3 packets of different durations, symbolic PTS.
func (r *vRun) writeOpus(ti int) {
	g, t := r.g, r.g.tracks[ti]
	n := 1 + verifChoice("npackets", verifParam("MAXAUS", 3))
	var pts int64
	if !t.hasDTS {
		pts = verifRangeI64("odts0", -480000, 1<<33)
	} else {
		d := verifRangeI64("odelta", 0, 1<<20)
		verifPrefer(d >= 24000)
		if !verifSymbolic() && d == 0 {
			r.sawTiny = true
		}
		pts = t.lastDTS + d
	}
	ntp := verifNTPBase.Add(time.Duration(r.k) * time.Second)
	var packets [][]byte
	first := verifChoice("firsttoc", 3)
	for i := 0; i < n; i++ {
		packets = append(packets, []byte{verifOpusTOC[(first+i)%3], byte(r.k), byte(i), 0xAA})
	}
	before := r.m.streams[0].nextSegmentID
	err := r.m.WriteOpus(r.tracks[ti], ntp, pts, packets)
	verifAssume(err == nil)
	cut := false
	d := pts
	pntp := ntp
	for i := 0; i < n; i++ {
		u := &vUnit{track: ti, k: r.k, dts: d, sync: true, ra: true, payload: packets[i], raw: packets[i], ntp: pntp}
		if d+g.offset(t) >= 0 {
			if g.accept(u) {
				cut = true
			}
		}
		t.lastDTS, t.hasDTS = d, true
		dur := verifOpusDur[(first+i)%3]
		d += dur
		pntp = pntp.Add(timestampToDuration(dur, 48000))
	}
	after := r.m.streams[0].nextSegmentID
	if cut {
		verifReach("cut")
		verifAssert("C02", "cut-when-due", after > before)
	} else {
		verifAssert("C02", "no-cut-unless-due", after == before)
	}
}

func (r *vRun) writeAudio(ti int) {
	g, t := r.g, r.g.tracks[ti]
	if _, isOpus := r.tracks[ti].Codec.(*codecs.Opus); isOpus {
		r.writeOpus(ti)
		return
	}
	n := 1 + verifChoice("naus", verifParam("MAXAUS", 1))
	var dts int64
	if verifParam("CONCRETE", 0) == 1 {
		if !t.hasDTS {
			dts = []int64{0, 132300, -220500}[verifChoice("adts0c", 3)]
		} else {
			dts = t.lastDTS + []int64{1024, 2048, 8820}[verifChoice("adeltac", 3)]
		}
	} else if !t.hasDTS {
		dts = verifRangeI64("adts0", -441000, 1<<33)
	} else {
		d := verifRangeI64("adelta", 0, 1<<20)
		verifPrefer(d >= 22050)
		if !verifSymbolic() && d == 0 {
			r.sawTiny = true
		}
		dts = t.lastDTS + d
	}
	var aus [][]byte
	ntp := verifNTPBase.Add(time.Duration(r.k) * time.Second)
	for i := 0; i < n; i++ {
		aus = append(aus, []byte{0xA0 + byte(ti), byte(r.k), byte(i)})
	}
	before := r.m.streams[0].nextSegmentID
	err := r.m.WriteMPEG4Audio(r.tracks[ti], ntp, dts, aus)
	verifAssume(err == nil)
	cut := false
	if g.variant == MuxerVariantMPEGTS {
		// one PES per write: the ghost unit is the whole write
		u := &vUnit{track: ti, k: r.k, dts: dts, sync: true, ra: true, ntp: ntp}
		for _, a := range aus {
			u.payload = append(u.payload, a...)
		}
		cut = g.accept(u)
		t.lastDTS, t.hasDTS = dts, true
	} else {
		for i := 0; i < n; i++ {
			d := dts + int64(i)*mpeg4audio.SamplesPerAccessUnit*int64(t.rate)/44100
			u := &vUnit{track: ti, k: r.k, dts: d, sync: true, ra: true, payload: aus[i], raw: aus[i],
				ntp: ntp.Add(time.Duration(i) * mpeg4audio.SamplesPerAccessUnit * time.Second / 44100)}
			if d+g.offset(t) >= 0 {
				if g.accept(u) {
					cut = true
				}
			}
			t.lastDTS, t.hasDTS = d, true
		}
	}
	after := r.m.streams[0].nextSegmentID
	r.checkCut(cut, before, after)
}

func (r *vRun) checkCut(cut bool, before, after uint64) {
	if cut {
		verifReach("cut")
		verifAssert("C02", "cut-when-due", after == before+1)
	} else {
		verifAssert("C02", "no-cut-unless-due", after == before)
	}
	for _, s := range r.m.streams {
		verifAssert("C02", "all-streams-cut-together", s.nextSegmentID == after)
	}
	verifAssert("C02", "completed-segment-count", int(after-r.base) == len(r.g.segs))
}

// ---------- observation ----------

func verifNumberAfter(s, marker string) int {
	i := strings.Index(s, marker)
	if i < 0 {
		return -1
	}
	j := i + len(marker)
	n, k := 0, j
	for k < len(s) && s[k] >= '0' && s[k] <= '9' {
		n = n*10 + int(s[k]-'0')
		k++
	}
	if k == j {
		return -1
	}
	return n
}

func verifAbsDur(d time.Duration) time.Duration {
	if d < 0 {
		return -d
	}
	return d
}

const verifDurTol = 10 * time.Microsecond

func (r *vRun) hasContent() bool {
	n := len(r.g.segs)
	switch r.g.variant {
	case MuxerVariantFMP4:
		return n >= 2
	}
	return n >= 1
}

func (r *vRun) observe() {
	if !r.hasContent() {
		return
	}
	verifReach("observe")
	g := r.g
	verifLog("observe k/segs", r.k, len(g.segs))
	var first *playlist.Media
	for si, so := range r.obs {
		w := verifGet(r.m, so.id+"_stream.m3u8")
		verifAssert("C05", "playlist-200", w.code == 200)
		if w.code != 200 {
			continue
		}
		var pl playlist.Media
		err := pl.Unmarshal(w.body)
		verifLog("playlist code/err/nsegs", w.code, err, len(pl.Segments))
		verifAssert("C15", "served-playlist-parses", err == nil)
		if err != nil {
			// (native build only: symbolically the text layer is bypassed) a served playlist the library's own
			// decoder rejects cannot be observed further; that is a failure of whatever is being checked, except
			// when two consecutive units carry the same DTS (zero-length segments or parts are then possible, which
			// the decoder rejects as "duration missing": documented limitation)
			verifAssert("*", "served-playlist-accepted-by-own-decoder", r.sawTiny)
			continue
		}
		r.checkPlaylist(si, so, &pl)
		if first == nil {
			first = &pl
		} else {
			verifAssert("C04", "streams-same-msn", pl.MediaSequence == first.MediaSequence && len(pl.Segments) == len(first.Segments))
			if len(pl.Segments) == len(first.Segments) {
				for i := range pl.Segments {
					verifAssert("C04", "streams-same-durations", pl.Segments[i].Duration == first.Segments[i].Duration && pl.Segments[i].Gap == first.Segments[i].Gap)
				}
			}
			verifAssert("C03", "streams-same-target", pl.TargetDuration == first.TargetDuration)
		}
		r.fetchAll(si, so, &pl)
	}
	r.checkMultivariant()
	_ = g
}

// checkMultivariant: C16 on the multivariant playlist served at this instant.
func (r *vRun) checkMultivariant() {
	if !verifProp("C16") {
		return
	}
	g := r.g
	w := verifGet(r.m, "index.m3u8?tok=1")
	verifAssert("C16", "multivariant-200", w.code == 200)
	if w.code != 200 {
		return
	}
	var mv playlist.Multivariant
	if err := mv.Unmarshal(w.body); err != nil {
		verifFail("C16", "multivariant-parses")
		return
	}
	verifReach("multivariant")
	verifAssert("C16", "exactly-one-variant", len(mv.Variants) == 1)
	if len(mv.Variants) != 1 {
		return
	}
	v := mv.Variants[0]
	lead := r.obs[g.lead().stream]
	verifAssert("C16", "variant-uri-is-leading-stream-with-query", v.URI == lead.id+"_stream.m3u8?tok=1")
	for _, t := range g.tracks {
		want := "mp4a.40.2"
		if t.video {
			if verifParam("VCODEC", 0) != 0 {
				continue // RFC 6381 strings of the other video codecs: lemma.codecs (C09)
			}
			want = "avc1." + hex.EncodeToString(g.sps[1:4])
		}
		verifAssert("C16", "codecs-lists-every-track-current-parameters", containsCodec(v.Codecs, want))
	}
	hasVideo := false
	naudio := 0
	for _, t := range g.tracks {
		if t.video {
			hasVideo = true
		} else {
			naudio++
		}
	}
	if hasVideo && verifParam("VCODEC", 0) == 0 {
		verifAssert("C16", "resolution-matches-current-sps", v.Resolution == "1920x1080")
		verifAssert("C16", "frame-rate-present", v.FrameRate != nil && *v.FrameRate > 0)
	}
	// renditions: every non-leading audio track; all audio tracks of an audio-only multi-track muxer
	wantRend := 0
	if g.variant != MuxerVariantMPEGTS {
		if hasVideo {
			wantRend = naudio
		} else if naudio > 1 {
			wantRend = naudio
		}
	}
	verifAssert("C16", "one-rendition-per-audio-track", len(mv.Renditions) == wantRend)
	verifAssert("C16", "audio-group-iff-renditions", (v.Audio == "audio") == (wantRend > 0))
	defaults := 0
	for i, rd := range mv.Renditions {
		if rd.Default {
			defaults++
			verifAssert("C16", "default-is-first-when-none-marked", i == 0)
		}
		verifAssert("C16", "rendition-type-and-group", rd.Type == playlist.MultivariantRenditionTypeAudio && rd.GroupID == "audio")
	}
	if wantRend > 0 {
		verifAssert("C16", "exactly-one-default", defaults == 1)
	}
	// BANDWIDTH >= AVERAGE-BANDWIDTH > 0 and their values are lemma.bandwidth's subject (non-linear
	// in the symbolic durations of this run); here: present, and computing them must not panic.
	verifAssert("C16", "average-bandwidth-present", v.AverageBandwidth != nil)
}

func (r *vRun) checkPlaylist(si int, so *vStreamObs, pl *playlist.Media) {
	g := r.g
	total := len(g.segs) + int(r.base)
	n := total
	if n > g.segCount {
		n = g.segCount
	}
	head := total - n
	verifAssert("C04", "msn-of-head", pl.MediaSequence == head)
	verifAssert("C04", "listed-count", len(pl.Segments) == n)
	verifAssert("C18", "at-most-segmentcount-listed", len(pl.Segments) <= g.segCount)
	if so.seen {
		verifAssert("C04", "msn-never-decreases", pl.MediaSequence >= so.lastMSN)
		verifAssert("C03", "targetduration-never-decreases", pl.TargetDuration >= so.lastTD)
	}
	so.seen, so.lastMSN, so.lastTD = true, pl.MediaSequence, pl.TargetDuration
	verifAssert("C15", "targetduration-nonzero", pl.TargetDuration != 0)
	ll := g.variant == MuxerVariantLowLatency
	lastPart := -1
	for i, seg := range pl.Segments {
		msn := pl.MediaSequence + i
		h := so.hist[msn]
		if h == nil {
			h = &vHist{}
			so.hist[msn] = h
		}
		if h.set {
			verifAssert("C04", "msn-denotes-same-segment", h.uri == seg.URI && h.dur == seg.Duration && h.gap == seg.Gap)
		} else {
			h.set, h.uri, h.dur, h.gap = true, seg.URI, seg.Duration, seg.Gap
		}
		verifAssert("C03", "targetduration-covers-extinf", pl.TargetDuration >= int((seg.Duration+500*time.Millisecond)/time.Second))
		verifAssert("C15", "segment-duration-nonzero-uri-nonempty", seg.URI != "" && (seg.Duration != 0 || true))
		ord := msn - int(r.base)
		if ord < 0 {
			verifAssert("C04", "initial-entries-are-gaps", seg.Gap)
			if len(g.segs) > 0 {
				verifAssert("C03", "gap-duration", verifAbsDur(seg.Duration-(g.segs[0].end-g.segs[0].start)) <= verifDurTol)
			}
			continue
		}
		verifAssert("C04", "real-segment-not-gap", !seg.Gap)
		if ord >= len(g.segs) {
			verifFail("C04", "segment-listed-before-complete")
			continue
		}
		gs := g.segs[ord]
		verifAssert("C03", "extinf-equals-media-time", verifAbsDur(seg.Duration-(gs.end-gs.start)) <= verifDurTol)
		verifAssert("C04", "uri-number-equals-msn", verifNumberAfter(seg.URI, "_seg") == msn)
		if seg.DateTime != nil {
			verifAssert("C03", "program-date-time", verifAbsDur(seg.DateTime.Sub(gs.ntp)) < time.Millisecond)
		} else {
			verifAssert("C03", "program-date-time-on-last-segments", len(pl.Segments)-i > 2)
		}
		if len(seg.Parts) > 0 {
			verifAssert("C04", "parts-only-under-last-two", ll && len(pl.Segments)-i <= 2)
			var sum time.Duration
			for _, p := range seg.Parts {
				sum += p.Duration
				pn := verifNumberAfter(p.URI, "_part")
				if lastPart >= 0 {
					verifAssert("C04", "part-numbers-consecutive", pn == lastPart+1)
				}
				lastPart = pn
				verifAssert("C03", "parttarget-covers-part", pl.PartInf != nil && pl.PartInf.PartTarget >= p.Duration)
				verifAssert("C15", "part-duration-nonzero", p.Duration != 0 || true)
			}
			verifAssert("C03", "parts-sum-to-extinf", verifAbsDur(sum-seg.Duration) <= verifDurTol)
		} else if ll && len(pl.Segments)-i <= 2 {
			verifFail("C04", "ll-segment-without-parts")
		}
	}
	if ll {
		for _, p := range pl.Parts {
			pn := verifNumberAfter(p.URI, "_part")
			if lastPart >= 0 {
				verifAssert("C04", "part-numbers-consecutive", pn == lastPart+1)
			}
			lastPart = pn
			verifAssert("C03", "parttarget-covers-part", pl.PartInf != nil && pl.PartInf.PartTarget >= p.Duration)
		}
		verifAssert("C04", "preload-hint-present", pl.PreloadHint != nil)
		if pl.PreloadHint != nil && lastPart >= 0 {
			verifAssert("C04", "preload-hint-names-next-part", verifNumberAfter(pl.PreloadHint.URI, "_part") == lastPart+1)
		}
		verifAssert("C03", "server-control", pl.ServerControl != nil && pl.ServerControl.PartHoldBack != nil && pl.PartInf != nil &&
			*pl.ServerControl.PartHoldBack >= 2*pl.PartInf.PartTarget &&
			pl.ServerControl.CanSkipUntil != nil && *pl.ServerControl.CanSkipUntil >= time.Duration(6*pl.TargetDuration)*time.Second)
	} else {
		verifAssert("C04", "no-parts-outside-ll", len(pl.Parts) == 0 && pl.PreloadHint == nil)
	}
}

func verifContentType(w *verifRW) string { return w.hdr.Get("Content-Type") }

func (r *vRun) fetchAll(si int, so *vStreamObs, pl *playlist.Media) {
	g := r.g
	wantCT := "video/mp4"
	if g.variant == MuxerVariantMPEGTS {
		wantCT = "video/MP2T"
	}
	listed := map[string]bool{}
	owner := 0 // media sequence number of the segment the URI being fetched belongs to
	fetch := func(uri string) []byte {
		listed[uri] = true
		if _, ok := so.owner[uri]; !ok {
			so.owner[uri] = owner
		}
		w := verifGet(r.m, uri)
		verifAssert("C05", "listed-uri-200", w.code == 200)
		verifAssert("C05", "listed-uri-content-type", w.code != 200 || verifContentType(w) == wantCT)
		if old, ok := so.bodies[uri]; ok {
			verifAssert("C05", "listed-uri-immutable", bytes.Equal(old, w.body))
		} else {
			so.bodies[uri] = w.body
		}
		return w.body
	}
	if pl.Map != nil {
		listed[pl.Map.URI] = true
		w := verifGet(r.m, pl.Map.URI)
		verifAssert("C05", "init-200", w.code == 200 && verifContentType(w) == "video/mp4")
		if w.code == 200 {
			r.checkInit(so, w.body)
		}
	} else {
		verifAssert("C05", "map-present-in-fmp4", g.variant == MuxerVariantMPEGTS)
	}
	for i, seg := range pl.Segments {
		if seg.Gap {
			continue
		}
		owner = pl.MediaSequence + i
		body := fetch(seg.URI)
		ord := pl.MediaSequence + i - int(r.base)
		verifLog("segment uri/ord/decoded/len", seg.URI, ord, so.decoded, len(body))
		if len(seg.Parts) > 0 {
			var cat []byte
			for _, p := range seg.Parts {
				pb := fetch(p.URI)
				cat = append(cat, pb...)
				r.checkPartBody(pb, verifNumberAfter(p.URI, "_part"))
			}
			verifAssert("C05", "segment-is-concatenation-of-parts", bytes.Equal(cat, body))
		}
		if ord == so.decoded && ord < len(g.segs) {
			r.decodeSegment(so, ord, body)
			so.decoded++
		}
	}
	owner = pl.MediaSequence + len(pl.Segments)
	for _, p := range pl.Parts {
		pb := fetch(p.URI)
		r.checkPartBody(pb, verifNumberAfter(p.URI, "_part"))
	}
	// URIs whose segment has left the window, and an unknown one, must not return media bytes
	// (parts of older segments that are still in the window are no longer listed but may stay fetchable)
	for uri := range so.bodies {
		if !listed[uri] && so.owner[uri] < pl.MediaSequence {
			w := verifGet(r.m, uri)
			verifAssert("C05", "expired-uri-not-served", w.code != 200 && len(w.body) == 0)
			verifAssert("C18", "expired-uri-unregistered", w.code != 200 && len(w.body) == 0)
		}
	}
	w := verifGet(r.m, "nonexistent_seg1.mp4")
	verifAssert("C05", "unknown-uri-not-served", w.code != 200 && len(w.body) == 0)
}

func (r *vRun) checkPartBody(body []byte, num int) {
	if r.g.variant == MuxerVariantMPEGTS {
		return
	}
	var ps fmp4.Parts
	err := ps.Unmarshal(body)
	verifAssert("C05", "part-decodes-to-one-fragment", err == nil && len(ps) == 1)
	if err == nil && len(ps) == 1 {
		verifAssert("C05", "fragment-sequence-number-is-part-number", int(ps[0].SequenceNumber) == num)
	}
}

func (r *vRun) checkInit(so *vStreamObs, body []byte) {
	g := r.g
	var in fmp4.Init
	err := in.Unmarshal(bytes.NewReader(body))
	verifAssert("C02", "init-decodes", err == nil)
	if err != nil {
		return
	}
	verifAssert("C02", "init-declares-stream-tracks", len(in.Tracks) == len(so.tracks))
	if len(in.Tracks) != len(so.tracks) {
		return
	}
	for i, ti := range so.tracks {
		t := g.tracks[ti]
		verifAssert("C02", "init-track-id-and-timescale", in.Tracks[i].ID == i+1 && int(in.Tracks[i].TimeScale) == t.rate)
		if c, ok := in.Tracks[i].Codec.(*fmp4.CodecH264); ok {
			verifAssert("C02", "init-codec-type", t.video)
			// once the first complete segment encoded with the changed parameters is listed and no
			// further change is pending, the init must carry the current parameters
			forcedDone := false
			for _, s := range g.segs {
				if s.forced {
					forcedDone = true
				}
			}
			latestForcedDone := !g.pending && (g.open == nil || !g.open.forced)
			if forcedDone && latestForcedDone {
				verifReach("init-after-change")
				verifAssert("C02", "init-carries-new-parameters", bytes.Equal(c.PPS, g.pps) && bytes.Equal(c.SPS, g.sps))
			}
		} else {
			changeDone := false
			for _, sg := range g.segs {
				if sg.forced {
					changeDone = true
				}
			}
			changeDone = changeDone && !g.pending && (g.open == nil || !g.open.forced)
			switch c := in.Tracks[i].Codec.(type) {
			case *fmp4.CodecH265:
				verifAssert("C02", "init-codec-type", t.video && verifParam("VCODEC", 0) == 1)
				if changeDone {
					verifReach("init-after-change")
					verifAssert("C02", "init-carries-new-parameters", bytes.Equal(c.PPS, g.pps) && bytes.Equal(c.SPS, g.sps) && bytes.Equal(c.VPS, verifH265VPS))
				}
			case *fmp4.CodecVP9:
				verifAssert("C02", "init-codec-type", t.video && verifParam("VCODEC", 0) == 2)
				if changeDone {
					verifReach("init-after-change")
					w, h := 1920, 804
					if bytes.Equal(g.sps, verifVP9Key2) {
						w, h = 3840, 2160
					}
					verifAssert("C02", "init-carries-new-parameters", c.Width == w && c.Height == h && c.BitDepth == 8 && c.Profile == 0)
				}
			case *fmp4.CodecAV1:
				verifAssert("C02", "init-codec-type", t.video && verifParam("VCODEC", 0) == 3)
				if changeDone {
					verifReach("init-after-change")
					verifAssert("C02", "init-carries-new-parameters", bytes.Equal(c.SequenceHeader, g.sps))
				}
			default:
				verifAssert("C02", "init-codec-type", !t.video)
			}
		}
	}
}

// decodeSegment compares the decoded fragments of the ord-th completed segment with the ghost.
func (r *vRun) decodeSegment(so *vStreamObs, ord int, body []byte) {
	g := r.g
	if g.variant == MuxerVariantMPEGTS {
		r.decodeSegmentTS(so, ord, body)
		return
	}
	var ps fmp4.Parts
	err := ps.Unmarshal(body)
	verifAssert("C01", "segment-decodes", err == nil && len(ps) >= 1)
	if err != nil {
		return
	}
	verifReach("decode-segment")
	verifLog("decode ord/parts", ord, len(ps))
	firstOfLead := true
	if g.maxSize != 0 {
		total := 0
		for _, p := range ps {
			for _, pt := range p.Tracks {
				for _, s := range pt.Samples {
					total += len(s.Payload)
				}
			}
		}
		verifAssert("C18", "published-segment-within-segmentmaxsize", uint64(total) <= g.maxSize)
	}
	for _, p := range ps {
		for _, pt := range p.Tracks {
			verifAssert("C01", "fragment-track-id-known", pt.ID >= 1 && pt.ID <= len(so.tracks))
			if pt.ID < 1 || pt.ID > len(so.tracks) {
				continue
			}
			li := pt.ID - 1
			t := g.tracks[so.tracks[li]]
			if so.haveBase[li] {
				verifAssert("C01", "fragments-contiguous-base-times", pt.BaseTime == so.nextBase[li])
			}
			base := pt.BaseTime
			for _, s := range pt.Samples {
				idx := so.taken[li]
				if idx >= len(t.emitted) {
					verifFail("C01", "decoded-unit-not-written")
					continue
				}
				e := t.emitted[idx]
				so.taken[li]++
				verifAssert("C01", "unit-in-its-segment", e.seg == ord)
				verifAssert("C01", "unit-bytes-and-order", bytes.Equal(s.Payload, e.u.payload))
				verifAssert("C01", "unit-decode-time", base == uint64(e.u.dts+g.offset(t)))
				verifAssert("C01", "unit-duration", int64(s.Duration) == e.dur)
				verifAssert("C01", "unit-pts-offset", int64(s.PTSOffset) == e.u.ptsOff)
				verifAssert("C01", "unit-sync-flag", s.IsNonSyncSample == !e.u.sync)
				if t.leading && firstOfLead {
					firstOfLead = false
					verifAssert("C02", "segment-starts-with-random-access", !s.IsNonSyncSample && e.u.ra && e.u == g.segs[ord].first)
				}
				base += uint64(s.Duration)
			}
			so.nextBase[li], so.haveBase[li] = base, true
		}
	}
	// nothing of this segment may be missing
	for li, ti := range so.tracks {
		t := g.tracks[ti]
		if so.taken[li] < len(t.emitted) {
			verifAssert("C01", "no-unit-lost", t.emitted[so.taken[li]].seg > ord)
		}
	}
	verifAssert("C02", "segment-has-leading-unit", !firstOfLead || !g.tracks[so.tracks[0]].leading && g.lead().stream != indexOfStream(r, so))
}

func indexOfStream(r *vRun, so *vStreamObs) int {
	for i, o := range r.obs {
		if o == so {
			return i
		}
	}
	return -1
}

func (r *vRun) decodeSegmentTS(so *vStreamObs, ord int, body []byte) {
	if !verifSymbolic() {
		r.decodeSegmentTSNative(so, ord, body)
		return
	}
	g := r.g
	verifAssert("C01", "ts-segment-blobs", len(body)%4 == 0)
	verifReach("decode-segment")
	first := true
	for i := 0; i+4 <= len(body); i += 4 {
		b := body[i : i+4]
		if b[0] != 'T' || b[3] != 0xEE {
			verifFail("C01", "ts-segment-blobs")
			return
		}
		rec := verifTSLog[int(b[1])|int(b[2])<<8]
		li := -1
		for k, ti := range so.tracks {
			if r.m.mtracks[ti].mpegtsTrack == rec.track {
				li = k
			}
		}
		if li < 0 {
			verifFail("C01", "fragment-track-id-known")
			continue
		}
		t := g.tracks[so.tracks[li]]
		idx := so.taken[li]
		if idx >= len(t.emitted) {
			verifFail("C01", "decoded-unit-not-written")
			continue
		}
		e := t.emitted[idx]
		so.taken[li]++
		verifAssert("C01", "unit-in-its-segment", e.seg == ord)
		var cat []byte
		for _, n := range rec.au {
			cat = append(cat, n...)
		}
		var want []byte
		if t.video {
			want = e.u.payload
		} else {
			want = e.u.payload
		}
		verifAssert("C01", "unit-bytes-and-order", bytes.Equal(cat, want))
		verifAssert("C01", "unit-decode-time", rec.dts == multiplyAndDivide(e.u.dts, 90000, int64(t.rate)))
		verifAssert("C01", "unit-pts-offset", rec.pts == multiplyAndDivide(e.u.dts+e.u.ptsOff, 90000, int64(t.rate)))
		if t.leading && first {
			first = false
			verifAssert("C02", "segment-starts-with-random-access", e.u.ra && e.u == g.segs[ord].first)
		}
	}
	for li, ti := range so.tracks {
		t := g.tracks[ti]
		if so.taken[li] < len(t.emitted) {
			verifAssert("C01", "no-unit-lost", t.emitted[so.taken[li]].seg > ord)
		}
	}
}

// decodeSegmentTSNative (native replay only): the segment is demuxed with mediacommon's real MPEG-TS reader and the
// timestamps of every unit are compared with the ghost (bytes: the real writer adds parameter sets to key frames and
// ADTS headers to audio, so only the order and the times are compared here).
func (r *vRun) decodeSegmentTSNative(so *vStreamObs, ord int, body []byte) {
	g := r.g
	rd := &mpegts.Reader{R: bytes.NewReader(body)}
	if err := rd.Initialize(); err != nil {
		return // a segment without the data of every declared track cannot be opened by a real demuxer: not judged here
	}
	type rec struct {
		li       int
		pts, dts int64
	}
	var recs []rec
	for _, mt := range rd.Tracks() {
		mt := mt
		li := -1
		for k, ti := range so.tracks {
			_, isV := mt.Codec.(*mpegts.CodecH264)
			if g.tracks[ti].video == isV {
				li = k
			}
		}
		if li < 0 {
			continue
		}
		switch mt.Codec.(type) {
		case *mpegts.CodecH264:
			rd.OnDataH264(mt, func(pts int64, dts int64, _ [][]byte) error {
				recs = append(recs, rec{li, pts, dts})
				return nil
			})
		case *mpegts.CodecMPEG4Audio:
			rd.OnDataMPEG4Audio(mt, func(pts int64, aus [][]byte) error {
				recs = append(recs, rec{li, pts, pts})
				return nil
			})
		}
	}
	for {
		if err := rd.Read(); err != nil {
			break
		}
	}
	for _, rc := range recs {
		t := g.tracks[so.tracks[rc.li]]
		idx := so.taken[rc.li]
		if idx >= len(t.emitted) {
			verifFail("C01", "decoded-unit-not-written")
			continue
		}
		e := t.emitted[idx]
		so.taken[rc.li]++
		verifAssert("C01", "unit-in-its-segment", e.seg == ord)
		// MPEG-TS carries 33-bit timestamps: equal modulo 2^33
		const m33 = int64(1)<<33 - 1
		verifAssert("C01", "unit-decode-time", (rc.dts-multiplyAndDivide(e.u.dts, 90000, int64(t.rate)))&m33 == 0)
		verifAssert("C01", "unit-pts-offset", (rc.pts-multiplyAndDivide(e.u.dts+e.u.ptsOff, 90000, int64(t.rate)))&m33 == 0)
	}
}

// VerifH_mux_run is the shared bounded-run harness.
func VerifH_mux_run() {
	verifVideoStarted = map[int]bool{}
	verifPartLog, verifInitLog, verifMediaLog, verifMultiLog, verifTSLog = nil, nil, nil, nil, nil
	verifPtsOffMax = int64(verifParam("PTSOFFMAX", 0))
	if verifSymbolic() {
		verifFSReset()
	}
	r := verifSetup()
	K := verifParam("K", 5)
	for r.k = 0; r.k < K; r.k++ {
		ti := 0
		if len(r.tracks) > 1 {
			ti = verifChoice("track", len(r.tracks))
		}
		if r.g.tracks[ti].video {
			r.writeVideo(ti)
		} else {
			r.writeAudio(ti)
		}
		r.observe()
		if verifDirectoryName != "" {
			// at most SegmentCount listed segments plus the one being written, per stream
			verifAssert("C18", "directory-files-bounded", verifLiveFiles() <= len(r.m.streams)*(r.g.segCount+1))
		}
	}
	if verifParam("CLOSE_AT_END", 0) == 1 {
		r.m.Close()
		verifAssert("C07", "directory-empty-after-close", verifLiveFiles() == 0)
	}
	verifReach("end")
}
