//go:build verif

package gohlslib

// The two float kernels of the muxer are replaced by the integer summaries of mux_stubs.go in the harnesses whose
// durations are symbolic (the summaries are proven equal to the real code by C03's lemmas). Harnesses with concrete
// durations (C19's runs) leave this file out and execute the real float code.

//verif:stub github.com/bluenviron/gohlslib/v2.targetDuration verifStub_targetDuration
//verif:stub github.com/bluenviron/gohlslib/v2.partTargetDuration verifStub_partTargetDuration
