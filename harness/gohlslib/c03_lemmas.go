//go:build verif

package gohlslib

// C03 — arithmetic lemmas behind the playlist durations.

import (
	"math"
	"time"
)

var verifRates = []int{90000, 48000, 44100, 32000, 24000, 22050, 16000, 12000, 11025, 8000}

// VerifH_C03_ts2dur (int mode): the real timestampToDuration is within 1 ns below the exact
// media time, monotone, and durationToTimestamp inverts it up to one tick.
func VerifH_C03_ts2dur() {
	rate := verifRates[verifChoice("rate", len(verifRates))]
	x := verifRangeI64("x", 0, 1<<33)
	y := verifRangeI64("y", 0, 1<<33)
	dx := int64(timestampToDuration(x, rate))
	dy := int64(timestampToDuration(y, rate))
	// floor(x * 1e9 / rate): dx*rate <= x*1e9 < (dx+1)*rate
	verifAssert("C03", "ts2dur-within-1ns-below-exact", dx*int64(rate) <= x*1000000000 && x*1000000000 < (dx+1)*int64(rate))
	verifAssert("C03", "ts2dur-monotone", x > y || dx <= dy)
	back := durationToTimestamp(time.Duration(dx), rate)
	verifAssert("C03", "dur2ts-inverts-within-one-tick", back == x || back == x-1)
	// negative timestamps (MPEG-TS down to -10 s): within 1 ns of exact
	n := verifRangeI64("n", -int64(10*rate), 0)
	dn := int64(timestampToDuration(n, rate))
	verifAssert("C03", "ts2dur-negative-within-1ns", dn*int64(rate)-n*1000000000 < int64(rate) && n*1000000000-dn*int64(rate) < int64(rate))
	verifReach("end")
}

// verifSecondsExpr is time.Duration.Seconds() on pre-split operands (sec = d / 1e9, nsec = d % 1e9;
// the split itself is integer arithmetic).
func verifSecondsExpr(sec, nsec int64) float64 { return float64(sec) + float64(nsec)/1e9 }

// VerifH_C03_roundLemma (bv + floating point): int(math.Round(d.Seconds())) equals the integer
// summary (d + 500ms) / 1s used by the bounded runs, for every 0 <= d < 2^17 s.
func VerifH_C03_roundLemma() {
	sec := verifRangeI64("sec", 0, 1<<17)
	nsec := verifRangeI64("nsec", 0, 999999999)
	got := int64(math.Round(verifSecondsExpr(sec, nsec)))
	want := sec
	if nsec >= 500000000 {
		want = sec + 1
	}
	verifAssert("C03", "round-of-seconds-equals-integer-summary", got == want)
	verifReach("end")
}

// VerifH_C03_ceilLemma (bv + floating point): Millisecond * Duration(math.Ceil(float64(d)/float64(Millisecond)))
// equals ceil(d / 1ms) * 1ms for 0 <= d < 2^52 (pre-split into ms and remainder).
func VerifH_C03_ceilLemma() {
	d := verifRangeI64("d", 0, int64(verifParam("CEILMAX", 1<<33)))
	q := int64(math.Ceil(float64(d) / float64(time.Millisecond)))
	// q = ceil(d / 1ms): q*1ms >= d > (q-1)*1ms
	verifAssert("C03", "ceil-to-millisecond-equals-integer-summary", q*1000000 >= d && (q-1)*1000000 < d)
	verifReach("end")
}

type vDurSeg struct {
	muxerGap
	d time.Duration
}

func (s *vDurSeg) getDuration() time.Duration { return s.d }

// VerifH_C03_targetDuration (concrete boundary table through the real functions): the real
// targetDuration / partTargetDuration agree with the integer summaries on boundary values.
func VerifH_C03_targetDuration() {
	vals := []time.Duration{0, 1, 499999999, 500000000, 500000001, 999999999, 1000000000, 1499999999, 1500000000, 2500000000,
		3600*time.Second + 499999999, 3600*time.Second + 500000000, (1<<17)*time.Second - 1}
	for _, d := range vals {
		got := targetDuration([]muxerSegment{&vDurSeg{d: d}, &vDurSeg{d: time.Second}})
		want := int((d + 500*time.Millisecond) / time.Second)
		if want < 1 {
			want = 1
		}
		verifAssert("C03", "targetDuration-boundary-table", got == want)
		// a playlist whose segments are all shorter than half a second: the target stays positive (the library's own
		// decoder, hence its client, rejects TARGETDURATION:0 as "not set": C09)
		got1 := targetDuration([]muxerSegment{&vDurSeg{d: d}})
		want1 := int((d + 500*time.Millisecond) / time.Second)
		if want1 < 1 {
			want1 = 1
		}
		verifAssert("*", "targetDuration-positive-and-equal-to-summary", got1 == want1)
	}
	for _, d := range []time.Duration{1, 999999, 1000000, 1000001, 33333333, 199999999, 200000000, 200000001} {
		p := &muxerPart{startDTS: 0, endDTS: d}
		got := partTargetDuration(nil, []*muxerPart{p})
		want := (d + time.Millisecond - 1) / time.Millisecond * time.Millisecond
		verifAssert("C03", "partTargetDuration-boundary-table", got == want)
	}
	// which parts count: a media playlist lists the parts of its last two complete segments and of the open one, so
	// PART-TARGET must cover the longest of those wherever it sits (older segments may or may not be counted)
	for pos := 0; pos < 4; pos++ {
		mk := func(i int) []*muxerPart {
			d := 100 * time.Millisecond
			if i == pos {
				d = 450 * time.Millisecond
			}
			return []*muxerPart{{startDTS: 0, endDTS: 100 * time.Millisecond}, {startDTS: 0, endDTS: d}}
		}
		segs := []muxerSegment{&muxerSegmentFMP4{parts: mk(0)}, &muxerSegmentFMP4{parts: mk(1)}, &muxerSegmentFMP4{parts: mk(2)}}
		got := partTargetDuration(segs, mk(3))
		want := 100 * time.Millisecond
		if pos >= 1 {
			want = 450 * time.Millisecond
		}
		verifAssert("C03", "partTargetDuration-covers-the-listed-parts", got >= want)
	}
	verifReach("end")
}
