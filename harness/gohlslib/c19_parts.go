//go:build verif

package gohlslib

// C19 — Low-Latency part regularity.

import (
	"strconv"
	"time"

	"github.com/bluenviron/gohlslib/v2/pkg/codecs"
	"github.com/bluenviron/gohlslib/v2/pkg/playlist"
	"github.com/bluenviron/mediacommon/v2/pkg/codecs/mpeg4audio"
)

type vSD struct {
	ticks int64
	rate  int
}

// constant sample durations of the quantifier: video frame rates at 90 kHz (integral tick counts,
// incl. 1001-based ones), AAC frames at the standard sample rates, Opus frame sizes at 48 kHz
var verifSDTable = []vSD{
	// most common first (the quick tier takes a prefix)
	{3000, 90000}, {3003, 90000}, {1500, 90000}, {3600, 90000}, {3750, 90000}, {1800, 90000},
	{1024, 48000}, {1024, 44100}, {960, 48000}, {480, 48000}, {1920, 48000}, {750, 90000},
	{900, 90000}, {1000, 90000}, {1875, 90000}, {6000, 90000}, {6006, 90000}, {4500, 90000}, {7500, 90000},
	{1024, 96000}, {1024, 88200}, {1024, 64000}, {1024, 32000}, {1024, 24000}, {1024, 22050}, {1024, 16000},
	{120, 48000}, {240, 48000}, {2880, 48000},
	{9000, 90000}, {9009, 90000}, {1024, 12000}, {1024, 11025}, {1024, 8000},
	{18000, 90000}, {45000, 90000}, {90000, 90000},
}

// VerifH_C19_compat: the real findCompatiblePartDuration for one constant sample duration of the
// table and a symbolic PartMinDuration in [50 ms, 2 s].
func VerifH_C19_compat() {
	n := verifParam("TABLE", len(verifSDTable))
	if n > len(verifSDTable) {
		n = len(verifSDTable)
	}
	e := verifSDTable[verifChoice("sd", n)]
	sd := timestampToDuration(e.ticks, e.rate)
	pmin := time.Duration(verifRangeI64("pmin", int64(50*time.Millisecond), int64(2*time.Second)))
	a := findCompatiblePartDuration(pmin, map[time.Duration]struct{}{sd: {}})
	verifReach("computed")
	verifAssert("C19", "adjusted-at-least-partminduration", a >= pmin)
	// the part closes at the first sample boundary at or after a
	cnt := a / sd
	if a%sd != 0 {
		cnt++
	}
	D := cnt * sd
	verifAssert("C19", "part-duration-at-least-partminduration", D >= pmin)
	mx := pmin
	if sd > mx {
		mx = sd
	}
	verifAssert("C19", "part-duration-below-twice-max-plus-sample", D < 2*mx+sd)
	target := (D + time.Millisecond - 1) / time.Millisecond * time.Millisecond // PART-TARGET announced for parts of length D
	verifAssert("C19", "part-at-least-85-percent-of-part-target", D*100 >= target*85)
	verifAssert("C19", "part-at-most-part-target", D <= target)
}

// VerifH_C19_run: a real Low-Latency muxer fed a constant frame duration (from a small table)
// with a symbolic PartMinDuration and symbolic key-frame placement; every served playlist is
// checked against the statement.
func VerifH_C19_run() {
	verifPartLog, verifInitLog, verifMediaLog, verifMultiLog = nil, nil, nil, nil
	frames := []int64{3000, 3003, 1500, 9000}
	fi := verifChoice("frame", len(frames))
	if f := verifParam("FRAMEIDX", -1); f >= 0 {
		fi = f
	}
	ticks := frames[fi]
	sd := timestampToDuration(ticks, 90000)
	pmin := time.Duration(verifRangeI64("pmin", int64(50*time.Millisecond), int64(time.Duration(verifParam("PMINMAX_MS", 400))*time.Millisecond)))
	if lo := verifParam("PMIN_LO_NS", 0); lo != 0 {
		// a narrow window around a multiple of the sample duration (the boundary class of the known finding)
		verifAssume(pmin >= time.Duration(lo) && pmin <= time.Duration(verifParam("PMIN_HI_NS", lo)))
	}
	tr := verifVideoTrack()
	tracks := []*Track{tr}
	var atr *Track
	arate := []int{8000, 44100}[verifChoice("audiorate", 2)]
	if verifParam("AUDIO", 0) == 1 {
		// an audio rendition whose access-unit duration differs from the frame duration: only the leading
		// track's constant sample duration may determine the part duration
		atr = &Track{Codec: &codecs.MPEG4Audio{Config: mpeg4audio.Config{Type: 2, SampleRate: arate, ChannelCount: 1}}, ClockRate: arate}
		tracks = append(tracks, atr)
	}
	m := &Muxer{
		Variant:            MuxerVariantLowLatency,
		SegmentCount:       7,
		SegmentMinDuration: time.Duration(verifParam("SEGMIN_MS", 500)) * time.Millisecond,
		PartMinDuration:    pmin,
		Tracks:             tracks,
		OnEncodeError:      func(error) {},
	}
	err := m.Start()
	verifAssert("*", "start-accepts-configuration", err == nil)
	K := verifParam("K", 12)
	gop := verifParam("GOPBASE", 3) + verifChoice("gop", verifParam("GOPS", 3)) // key frame every 3..5 frames (symbolic placement)
	var lastTarget time.Duration
	lastHadNonFinal := false
	audioPTS := int64(0)
	for k := 0; k < K; k++ {
		var au [][]byte
		if k%gop == 0 {
			au = [][]byte{verifTestSPS, {5, byte(k)}}
		} else {
			au = [][]byte{{1, byte(k)}}
		}
		err := m.WriteH264(tr, verifNTPBase.Add(time.Duration(k)*sd), int64(k)*ticks, au)
		verifAssume(err == nil)
		if atr != nil && k >= verifParam("AUDIOJOIN", 2) {
			// audio joins a little later and keeps pace with the video
			for audioPTS+1024 <= int64(k+1)*ticks*int64(arate)/90000 {
				err = m.WriteMPEG4Audio(atr, verifNTPBase.Add(time.Duration(k)*sd), audioPTS, [][]byte{{0xA0, byte(k)}})
				verifAssume(err == nil)
				audioPTS += 1024
			}
		}
		st := verifLLState(m, "video1")
		if st == nil {
			continue
		}
		pl := st.pl
		if pl.PartInf == nil {
			verifFail("C19", "part-inf-present")
			continue
		}
		target := pl.PartInf.PartTarget
		// non-final parts: every part of a complete segment but its last one, and every part of the open segment
		var nonFinal []*playlist.MediaPart
		for _, s := range pl.Segments {
			for i, p := range s.Parts {
				if i < len(s.Parts)-1 {
					nonFinal = append(nonFinal, p)
				}
			}
		}
		nonFinal = append(nonFinal, pl.Parts...)
		for i, p := range nonFinal {
			verifReach("non-final-part")
			verifReach("non-final-part@" + strconv.Itoa(int(ticks)))
			// known finding: when PartMinDuration lies within a few nanoseconds above a multiple of a sample duration that is
			// not a whole number of nanoseconds (e.g. 60 fps and 116666667 ns), the nanosecond truncation of the frame
			// times makes non-final parts alternate between n and n+1 samples; that input class has its own label so that
			// any other violation of the clause is still reported
			eqLabel := "non-final-parts-equal"
			if rem := pmin % sd; rem != 0 && (rem <= time.Duration(K) || sd-rem <= time.Duration(K)) {
				eqLabel = "non-final-parts-equal [PartMinDuration within K ns of a multiple of a sample duration with a fractional nanosecond]"
			}
			verifAssert("C19", eqLabel, verifAbsDur(p.Duration-nonFinal[0].Duration) <= verifDurTol || i == 0)
			verifAssert("C19", "part-at-least-85-percent-of-part-target", p.Duration*100 >= target*85-time.Duration(100*verifDurTol))
			verifAssert("C19", "part-at-most-part-target", p.Duration <= target+verifDurTol)
			verifAssert("C19", "part-duration-at-least-partminduration", p.Duration >= pmin-verifDurTol)
			mx := pmin
			if sd > mx {
				mx = sd
			}
			verifAssert("C19", "part-duration-below-twice-max-plus-sample", p.Duration < 2*mx+sd+verifDurTol)
		}
		if len(nonFinal) > 0 && lastHadNonFinal {
			verifAssert("C19", "part-target-stable-between-playlists", target == lastTarget)
		}
		lastHadNonFinal, lastTarget = len(nonFinal) > 0, target
	}
	verifReach("end")
}
