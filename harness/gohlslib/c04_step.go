//go:build verif

package gohlslib

// Inductive step for the segment window (C04, C18, C05, C03): a muxerStream is built directly in an
// ARBITRARY state that satisfies the representation invariant I (below), one real rotateSegments
// runs with symbolic arguments, and I plus the step properties are asserted afterwards. Together
// with the bounded runs (which establish I from the real initial state) this covers histories of
// any length, in particular arbitrarily large media sequence numbers.
//
// Invariant I (non-Low-Latency variants): len(segments) <= SegmentCount; segments[i].id = D+i where
// D = segmentDeleteCount; nextSegmentID = D + len(segments) = id of the open segment; every listed
// segment is finalized and its path is registered; start <= end; targetDuration >= round(duration)
// of every listed segment.

import (
	"net/http"
	"strconv"
	"time"

	"github.com/bluenviron/gohlslib/v2/pkg/storage"
)

func verifRound(d time.Duration) int { return int((d + 500*time.Millisecond) / time.Second) }

func VerifH_C04_step() {
	verifPartLog, verifInitLog, verifMediaLog, verifMultiLog, verifTSLog = nil, nil, nil, nil, nil
	variant := MuxerVariant(1 + verifChoice("variant", 2)) // MPEG-TS or fMP4
	C := 3 + verifChoice("segcount", 2)
	n := verifChoice("listed", C+1)
	D := int(verifRangeI64("deleteCount", 0, int64(verifParam("MAXMSN", 1<<30))))
	m := &Muxer{Variant: variant, SegmentCount: C, Tracks: []*Track{verifVideoTrack()}, OnEncodeError: func(error) {}}
	err := m.Start()
	verifAssert("*", "start-accepts-configuration", err == nil)
	s := m.streams[0]
	s.segmentDeleteCount = D
	s.initFilePresent = n > 0
	// listed segments: consecutive ids, increasing times, finalized storage, registered paths
	t := time.Duration(verifRangeI64("t0", 0, 1<<40))
	maxRound := 0
	var paths []string
	for i := 0; i < n; i++ {
		d := time.Duration(verifRangeI64("dur", 0, int64(20*time.Second)))
		id := uint64(D + i)
		var seg muxerSegment
		var f storage.File
		if variant == MuxerVariantMPEGTS {
			sg := &muxerSegmentMPEGTS{segmentMaxSize: s.segmentMaxSize, prefix: s.prefix, storageFactory: s.storageFactory, streamID: s.id,
				mpegtsWriter: s.mpegtsWriter, id: id, startNTP: verifNTPBase, startDTS: t}
			err := sg.initialize()
			verifAssume(err == nil)
			sg.finalize(t + d) //nolint:errcheck
			seg, f = sg, sg.storage
		} else {
			sg := &muxerSegmentFMP4{prefix: s.prefix, storageFactory: s.storageFactory, streamID: s.id, id: id, startNTP: verifNTPBase, startDTS: t}
			err := sg.initialize()
			verifAssume(err == nil)
			sg.finalize(t + d) //nolint:errcheck
			seg, f = sg, sg.storage
		}
		_ = f
		s.segments = append(s.segments, seg)
		p := seg.getPath()
		paths = append(paths, p)
		s.server.registerPath(p, func(w http.ResponseWriter, _ *http.Request) { w.WriteHeader(http.StatusOK) })
		if r := verifRound(d); r > maxRound {
			maxRound = r
		}
		t += d
	}
	s.nextSegmentID = uint64(D + n)
	// the open segment
	if n > 0 || verifBool("started") {
		err := s.createFirstSegment(t, verifNTPBase)
		verifAssume(err == nil)
	} else {
		return // nothing to rotate before the first segment exists
	}
	// target duration: any value allowed by I
	s.targetDuration = maxRound + int(verifRangeI64("targetSlack", 0, 3))
	if n == 0 {
		s.targetDuration = 0
	}
	oldTarget := s.targetDuration
	oldFirst := ""
	if n > 0 {
		oldFirst = paths[0]
	}
	// one real rotation
	d := time.Duration(verifRangeI64("opendur", 0, int64(20*time.Second)))
	force := verifBool("force")
	m.mutex.Lock()
	err = s.rotateSegments(t+d, verifNTPBase.Add(time.Second), force)
	m.mutex.Unlock()
	verifAssert("C04", "rotation-succeeds", err == nil)
	if err != nil {
		return
	}
	verifReach("rotated")
	// step properties + invariant afterwards
	n2 := len(s.segments)
	verifAssert("C04", "at-most-segmentcount-listed", n2 <= C)
	verifAssert("C18", "at-most-segmentcount-listed", n2 <= C)
	wantN, wantD := n+1, D
	if n == C {
		wantN, wantD = C, D+1
	}
	verifAssert("C04", "append-at-tail-remove-at-head", n2 == wantN && s.segmentDeleteCount == wantD)
	verifAssert("C04", "msn-never-decreases", s.segmentDeleteCount >= D)
	verifAssert("C04", "open-segment-id", s.nextSegmentID == uint64(s.segmentDeleteCount+n2))
	for i, sg := range s.segments {
		var id uint64
		switch x := sg.(type) {
		case *muxerSegmentFMP4:
			id = x.id
		case *muxerSegmentMPEGTS:
			id = x.id
		}
		verifAssert("C04", "listed-ids-consecutive", id == uint64(s.segmentDeleteCount+i))
		ext := ".mp4"
		if variant == MuxerVariantMPEGTS {
			ext = ".ts"
		}
		wantPath := s.prefix + "_" + s.id + "_seg" + strconv.FormatUint(uint64(s.segmentDeleteCount+i), 10) + ext
		verifAssert("C04", "uri-number-equals-msn", sg.getPath() == wantPath)
		verifAssert("C05", "listed-segment-registered", s.server.getPathHandler(sg.getPath()) != nil)
		verifAssert("C03", "targetduration-covers-extinf", s.targetDuration >= verifRound(sg.getDuration()))
	}
	if n == C {
		verifReach("evicted")
		verifAssert("C05", "expired-segment-unregistered", s.server.getPathHandler(oldFirst) == nil)
		verifAssert("C18", "expired-segment-unregistered", s.server.getPathHandler(oldFirst) == nil)
	}
	verifAssert("C03", "targetduration-never-decreases", s.targetDuration >= oldTarget)
	last := s.segments[n2-1]
	verifAssert("C03", "new-segment-duration", last.getDuration() == d)
	verifReach("end")
}

