//go:build verif

package gohlslib

// C01 / C02 with reordered frames (PTS != DTS): the real H264 sequence of mediacommon's DTS extractor test vector
// ("with timing info": I P P P b b b P I, the last key frame 200 ms of decode time and 266 ms of presentation time
// after the first) through the real muxer with an arbitrary SegmentMinDuration. Symbolically the DTS extractor stub
// returns the vector's DTS; natively the real extractor computes them from the slice headers.

import (
	"time"

	"github.com/bluenviron/mediacommon/v2/pkg/formats/fmp4"
)

type vBF struct {
	au       [][]byte
	dts, pts int64
}

func verifBFrameSequence() []vBF {
	t := func(ns int64) int64 { return int64(time.Duration(ns) * 90000 / time.Second) }
	idr := []byte{0x65, 0x88, 0x84, 0x00, 0x33, 0xff}
	return []vBF{
		{[][]byte{verifBFrameSPS, idr}, t(333333333), t(333333333)},
		{[][]byte{{0x41, 0x9a, 0x21, 0x6c, 0x45, 0xff}}, t(366666666), t(366666666)},
		{[][]byte{{0x41, 0x9a, 0x42, 0x3c, 0x21, 0x93}}, t(400000000), t(400000000)},
		{[][]byte{{0x41, 0x9a, 0x63, 0x49, 0xe1, 0x0f}}, t(433333333), t(433333333)},
		{[][]byte{{0x41, 0x9a, 0x86, 0x49, 0xe1, 0x0f}}, t(434333333), t(533333333)},
		{[][]byte{{0x41, 0x9e, 0xa5, 0x42, 0x7f, 0xf9}}, t(435333333), t(500000000)},
		{[][]byte{{0x01, 0x9e, 0xc4, 0x69, 0x13, 0xff}}, t(466666666), t(466666666)},
		{[][]byte{{0x41, 0x9a, 0xc8, 0x4b, 0xa8, 0x42}}, t(499999999), t(600000000)},
		{[][]byte{idr}, t(533333332), t(599999999)},
	}
}

func VerifH_C02_bframes() {
	verifVideoStarted = map[int]bool{}
	verifPartLog, verifInitLog, verifMediaLog, verifMultiLog, verifTSLog = nil, nil, nil, nil, nil
	verifPtsOffMax = 0
	if verifSymbolic() {
		verifFSReset()
	}
	r := verifSetup() // BFRAMES=1: the vector's SPS; SegmentMinDuration symbolic
	g := r.g
	t := g.tracks[0]
	defer func() { verifDTSOverride = nil }()
	for k, e := range verifBFrameSequence() {
		r.k = k
		ra := len(e.au[len(e.au)-1]) > 0 && e.au[len(e.au)-1][0]&0x1F == 5
		dts := e.dts
		verifDTSOverride = &dts
		ntp := verifNTPBase.Add(time.Duration(k) * time.Second)
		u := &vUnit{track: 0, k: k, dts: e.dts, ptsOff: e.pts - e.dts, sync: ra, ra: ra, ntp: ntp}
		var ps fmp4.PartSample
		ps.FillH264(int32(u.ptsOff), e.au) //nolint:errcheck
		u.payload = ps.Payload
		for _, n := range e.au {
			u.raw = append(u.raw, n...)
		}
		before := r.m.streams[0].nextSegmentID
		err := r.m.WriteH264(r.tracks[0], ntp, e.pts, e.au)
		verifAssert("C01", "write-of-a-well-formed-reordered-unit-succeeds", err == nil)
		if err != nil {
			return
		}
		t.lastDTS, t.hasDTS = e.dts, true
		r.markVideoStarted(0)
		cut := g.accept(u)
		after := r.m.streams[0].nextSegmentID
		r.checkCut(cut, before, after)
		r.observe()
	}
	verifReach("end")
}
