//go:build verif

package gohlslib

// C06 — LL-HLS blocking reload, preload hints and delta updates.

import (
	"bytes"
	"strings"
	"sync/atomic"
	"time"

	"github.com/bluenviron/gohlslib/v2/pkg/playlist"
)

// ---------- lemma.hasPart: the real hasPart on an arbitrary stream state vs the specification ----------

// specPublishedState: is (M,P) published in this stream state? (written from the statement)
func verifSpecPublishedState(s *muxerStream, M, P uint64) bool {
	n := uint64(len(s.segments))
	open := s.nextSegmentID
	if open < n {
		return false
	}
	head := open - n
	for hop := 0; hop <= len(s.segments)+1; hop++ {
		if M == open {
			return P < uint64(len(s.nextSegment.(*muxerSegmentFMP4).parts))
		}
		if M < head || M > open {
			return false
		}
		np := uint64(0)
		if f, ok := s.segments[M-head].(*muxerSegmentFMP4); ok {
			np = uint64(len(f.parts))
		}
		if P < np {
			return true
		}
		// a part index past the end of a complete segment counts as part 0 of the next one
		M, P = M+1, 0
	}
	return false
}

// VerifH_C06_hasPart: arbitrary window (0..2 leading gaps, 0..3 complete segments with 1..2
// parts, open segment with 0..2 parts), arbitrary first media sequence number, arbitrary (M,P).
func VerifH_C06_hasPart() {
	ngap := verifChoice("ngap", 3)
	nseg := verifChoice("nseg", 4)
	first := verifRangeU64("firstMSN", 0, 1<<62)
	s := &muxerStream{variant: MuxerVariantLowLatency}
	for g := 0; g < ngap; g++ {
		s.segments = append(s.segments, &muxerGap{})
	}
	for i := 0; i < nseg; i++ {
		seg := &muxerSegmentFMP4{id: first + uint64(ngap+i)}
		seg.parts = make([]*muxerPart, 1+verifChoice("np", 2))
		s.segments = append(s.segments, seg)
	}
	s.nextSegmentID = first + uint64(ngap+nseg)
	open := &muxerSegmentFMP4{id: s.nextSegmentID}
	open.parts = make([]*muxerPart, verifChoice("nopen", 3))
	s.nextSegment = open
	M := verifU64("M")
	P := verifU64("P")
	got := s.hasPart(M, P)
	want := verifSpecPublishedState(s, M, P)
	verifReach("end")
	verifAssert("C06", "hasPart-equals-published", got == want)
}

// ---------- conc.reload: a blocking request as a thread inside a real Low-Latency run ----------

type vLLState struct {
	head, open int
	pl         *playlist.Media
}

func verifLLState(m *Muxer, id string) *vLLState {
	m.mutex.Lock()
	has := m.streams[0].hasContent() // a plain request would block otherwise
	m.mutex.Unlock()
	if !has {
		return nil
	}
	w := verifGet(m, id+"_stream.m3u8")
	if w.code != 200 {
		return nil
	}
	var pl playlist.Media
	if pl.Unmarshal(w.body) != nil {
		return nil
	}
	return &vLLState{head: pl.MediaSequence, open: pl.MediaSequence + len(pl.Segments), pl: &pl}
}

// verifSpecPublished: does playlist pl contain the complete segment M (no part given) or part P of M?
func verifSpecPublished(pl *playlist.Media, M int, hasP bool, P int) bool {
	head := pl.MediaSequence
	open := head + len(pl.Segments)
	if !hasP {
		return M >= head && M < open
	}
	for hop := 0; hop <= len(pl.Segments)+1; hop++ {
		if M == open {
			return P < len(pl.Parts)
		}
		if M < head || M > open {
			return false
		}
		seg := pl.Segments[M-head]
		if !seg.Gap {
			if open-M > 2 {
				return true // an older complete real segment: P < its parts, or part 0 of the (complete) next one
			}
			if P < len(seg.Parts) {
				return true
			}
		}
		M, P = M+1, 0
	}
	return false
}

func verifDigitOrX(b byte) bool { return (b >= '0' && b <= '9') || b == 'x' }

func verifParseSmall(s string) (int, bool) {
	if s == "" {
		return 0, false
	}
	n := 0
	for i := 0; i < len(s); i++ {
		if s[i] < '0' || s[i] > '9' {
			return 0, false
		}
		n = n*10 + int(s[i]-'0')
	}
	return n, true
}

func verifLLMuxer() (*Muxer, *Track) {
	tr := verifVideoTrack()
	m := &Muxer{
		Variant:            MuxerVariantLowLatency,
		SegmentCount:       verifParam("SEGCOUNT", 7),
		SegmentMinDuration: time.Duration(verifParam("SEGMIN_MS", 1000)) * time.Millisecond,
		PartMinDuration:    time.Duration(verifParam("PARTMIN_MS", 200)) * time.Millisecond,
		Tracks:             []*Track{tr},
		OnEncodeError:      func(error) {},
	}
	err := m.Start()
	verifAssert("*", "start-accepts-configuration", err == nil)
	return m, tr
}

type vWriter struct {
	m   *Muxer
	tr  *Track
	dts int64
	k   int
}

// write performs one H264 write: kind 0 IDR, 1 non-IDR; delta symbolic.
func (w *vWriter) write() {
	kind := verifChoice("vkind", 2)
	if w.k > 0 {
		d := verifRangeI64("vdelta", 1, 1<<18)
		w.dts += d
	}
	var au [][]byte
	if kind == 0 || w.k == 0 {
		au = [][]byte{verifTestSPS, {5, byte(w.k)}}
	} else {
		au = [][]byte{{1, byte(w.k)}}
	}
	err := w.m.WriteH264(w.tr, verifNTPBase.Add(time.Duration(w.k)*time.Second), w.dts, au)
	verifAssume(err == nil)
	w.k++
}

// VerifH_C06_reload: K writes; at a symbolic step a request thread with symbolic _HLS_msn /
// _HLS_part text is started; the writer's remaining writes are the interference.
func VerifH_C06_reload() {
	verifPartLog, verifInitLog, verifMediaLog, verifMultiLog = nil, nil, nil, nil
	m, tr := verifLLMuxer()
	wr := &vWriter{m: m, tr: tr}
	K := verifParam("K", 4)
	pre := 2 + verifChoice("prewrites", K-1) // 2..K writes before the request
	for i := 0; i < pre && i < K; i++ {
		wr.write()
	}
	st := verifLLState(m, "video1")
	if st == nil {
		// playlist not yet available: outside the statement ("once a stream's playlist is available")
		return
	}
	verifReach("playlist-available")
	// request text: up to 2 characters each, digits or an unparsable character
	msn := verifSymString("msn", verifChoice("msnlen", 3))
	part := verifSymString("part", verifChoice("partlen", 2))
	for i := 0; i < len(msn); i++ {
		verifAssume(verifDigitOrX(msn[i]))
	}
	for i := 0; i < len(part); i++ {
		verifAssume(verifDigitOrX(part[i]))
	}
	q := ""
	if msn != "" {
		q = "_HLS_msn=" + msn
	}
	if part != "" {
		if q != "" {
			q += "&"
		}
		q += "_HLS_part=" + part
	}
	M, okM := verifParseSmall(msn)
	P, okP := verifParseSmall(part)
	wellFormed := (msn == "" || okM) && (part == "" || okP) && !(part != "" && msn == "")
	var resp *verifRW
	var doneFlag atomic.Bool
	go func() {
		resp = verifGet(m, "video1_stream.m3u8?"+q)
		doneFlag.Store(true)
	}()
	// further identical requesters ("any number of concurrent requesters"): all must be released together
	nExtra := verifParam("WAITERS", 1) - 1
	extraDone := make([]atomic.Bool, nExtra)
	for i := 0; i < nExtra; i++ {
		i := i
		go func() {
			verifGet(m, "video1_stream.m3u8?"+q)
			extraDone[i].Store(true)
		}()
	}
	verifQuiesce()
	done := doneFlag.Load()
	// the answer rules are evaluated against the state at the time of the request
	head0, open0 := st.head, st.open
	reject := !wellFormed
	rejectOptional := false
	if wellFormed && msn != "" {
		if M > open0+1 || M < head0 {
			reject = true
		} else if M == head0 {
			rejectOptional = true // pinned by TestMuxerExpiredSegment: the oldest listed segment is rejected
		}
	}
	for step := pre; ; step++ {
		cur := verifLLState(m, "video1")
		if done {
			verifReach("answered")
			for i := range extraDone {
				verifAssert("C06", "every-waiter-of-the-same-part-is-released", extraDone[i].Load())
			}
			verifAssert("C06", "mutex-free-after-request", !verifHeld(&m.mutex))
			if resp.code == 200 {
				verifAssert("C06", "200-only-for-satisfiable-requests", !reject)
				var pl playlist.Media
				err := pl.Unmarshal(resp.body)
				verifAssert("C06", "200-body-is-playlist", err == nil)
				if err == nil && msn != "" && wellFormed {
					verifAssert("C06", "response-contains-requested-segment-or-part", verifSpecPublished(&pl, M, part != "", P))
				}
			} else {
				verifAssert("C06", "rejections-are-400", resp.code == 400)
				verifAssert("C06", "400-only-when-unsatisfiable", reject || rejectOptional)
				verifAssert("C06", "open-and-next-segment-never-rejected", !(wellFormed && msn != "" && (M == open0 || M == open0+1)))
				verifAssert("C06", "rejection-is-immediate", step == pre)
			}
			break
		}
		// still blocked: legitimate only while the requested part is not published
		verifReach("blocked")
		verifAssert("C06", "unsatisfiable-request-rejected-immediately", !reject)
		if cur != nil && wellFormed && msn != "" {
			verifAssert("C06", "blocked-only-while-unpublished", !verifSpecPublished(cur.pl, M, part != "", P))
		}
		if msn == "" {
			verifFail("C06", "plain-request-blocked-although-playlist-available")
		}
		if step >= K {
			break
		}
		wr.write()
		verifQuiesce()
		done = doneFlag.Load()
	}
	verifReach("end")
}

// VerifH_C06_hint: a GET of the preload-hint URI blocks until that part is complete and then
// returns exactly that part's bytes.
func VerifH_C06_hint() {
	verifPartLog, verifInitLog, verifMediaLog, verifMultiLog = nil, nil, nil, nil
	m, tr := verifLLMuxer()
	wr := &vWriter{m: m, tr: tr}
	K := verifParam("K", 4)
	pre := 2 + verifChoice("prewrites", K-1)
	for i := 0; i < pre && i < K; i++ {
		wr.write()
	}
	st := verifLLState(m, "video1")
	if st == nil || st.pl.PreloadHint == nil {
		return
	}
	hint := st.pl.PreloadHint.URI
	hn := verifNumberAfter(hint, "_part")
	var resp *verifRW
	var doneFlag atomic.Bool
	go func() {
		resp = verifGet(m, hint)
		doneFlag.Store(true)
	}()
	verifQuiesce()
	done := doneFlag.Load()
	verifAssert("C06", "hint-blocks-until-part-complete", !done)
	for step := pre; step < K; step++ {
		wr.write()
		verifQuiesce()
		done = doneFlag.Load()
		cur := verifLLState(m, "video1")
		if cur == nil || cur.pl.PreloadHint == nil {
			continue
		}
		published := verifNumberAfter(cur.pl.PreloadHint.URI, "_part") > hn
		if published {
			verifReach("hint-part-published")
			verifAssert("C06", "hint-answered-once-part-complete", done)
			if done {
				verifAssert("C06", "hint-200", resp.code == 200)
				direct := verifGet(m, hint)
				verifAssert("C06", "hint-returns-exactly-that-part", direct.code == 200 && bytes.Equal(direct.body, resp.body) && len(resp.body) > 0)
			}
			break
		}
		verifAssert("C06", "hint-not-answered-before-part-complete", !done)
	}
	verifAssert("C06", "mutex-free-after-hint", !verifHeld(&m.mutex))
	verifReach("end")
}

// VerifH_C06_delta: a _HLS_skip response is the full playlist of the same instant with its first
// SKIPPED-SEGMENTS segments and the map replaced by one EXT-X-SKIP; _HLS_* never leaks into URIs.
func VerifH_C06_delta() {
	verifPartLog, verifInitLog, verifMediaLog, verifMultiLog = nil, nil, nil, nil
	m, tr := verifLLMuxer()
	wr := &vWriter{m: m, tr: tr}
	K := verifParam("K", 4)
	for i := 0; i < K; i++ {
		wr.write()
	}
	full := verifLLState(m, "video1")
	if full == nil {
		return
	}
	verifReach("playlist-available")
	skipv := []string{"YES", "v2"}[verifChoice("skipval", 2)]
	extra := verifChoice("extra", 2) == 1
	q := "_HLS_skip=" + skipv
	if extra {
		q = "token=abc&" + q + "&_HLS_msn=" + itoaSmall(full.open-1) + "&_HLS_part=0"
	}
	w := verifGet(m, "video1_stream.m3u8?"+q)
	verifAssert("C06", "delta-200", w.code == 200)
	if w.code != 200 {
		return
	}
	var d playlist.Media
	if err := d.Unmarshal(w.body); err != nil {
		verifFail("C06", "delta-parses")
		return
	}
	f := full.pl
	verifAssert("C06", "delta-has-skip-tag-and-no-map", d.Skip != nil && d.Map == nil)
	if d.Skip == nil {
		return
	}
	sk := d.Skip.SkippedSegments
	if sk > 0 {
		verifReach("skipped-some")
	}
	verifAssert("C06", "delta-skip-count-in-range", sk >= 0 && sk <= len(f.Segments))
	verifAssert("C06", "delta-same-header", d.MediaSequence == f.MediaSequence && d.TargetDuration == f.TargetDuration && d.Version == f.Version)
	verifAssert("C06", "delta-segment-count", len(d.Segments) == len(f.Segments)-sk)
	if sk >= 0 && sk <= len(f.Segments) && len(d.Segments) == len(f.Segments)-sk {
		for i, ds := range d.Segments {
			fs := f.Segments[sk+i]
			same := verifStripQuery(ds.URI) == verifStripQuery(fs.URI) && ds.Duration == fs.Duration && ds.Gap == fs.Gap && len(ds.Parts) == len(fs.Parts) &&
				(ds.DateTime == nil) == (fs.DateTime == nil)
			verifAssert("C06", "delta-segments-equal-full-tail", same)
			if len(ds.Parts) == len(fs.Parts) {
				for j := range ds.Parts {
					verifAssert("C06", "delta-parts-equal-full", verifStripQuery(ds.Parts[j].URI) == verifStripQuery(fs.Parts[j].URI) &&
						ds.Parts[j].Duration == fs.Parts[j].Duration && ds.Parts[j].Independent == fs.Parts[j].Independent)
				}
			}
			verifAssert("C06", "no-hls-directive-in-uris", !strings.Contains(ds.URI, "_HLS_"))
			if extra {
				verifAssert("C06", "ordinary-query-preserved", strings.Contains(ds.URI, "token=abc") || ds.Gap)
			}
			for _, p := range ds.Parts {
				verifAssert("C06", "no-hls-directive-in-uris", !strings.Contains(p.URI, "_HLS_"))
			}
		}
	}
	verifAssert("C06", "delta-open-parts-equal-full", len(d.Parts) == len(f.Parts))
	for _, p := range d.Parts {
		verifAssert("C06", "no-hls-directive-in-uris", !strings.Contains(p.URI, "_HLS_"))
	}
	if d.PreloadHint != nil && f.PreloadHint != nil {
		verifAssert("C06", "delta-same-preload-hint", verifStripQuery(d.PreloadHint.URI) == verifStripQuery(f.PreloadHint.URI))
		verifAssert("C06", "no-hls-directive-in-uris", !strings.Contains(d.PreloadHint.URI, "_HLS_"))
	} else {
		verifFail("C06", "delta-same-preload-hint")
	}
	verifReach("end")
}

func verifStripQuery(u string) string {
	if i := strings.IndexByte(u, '?'); i >= 0 {
		return u[:i]
	}
	return u
}

func itoaSmall(n int) string {
	if n < 10 {
		return string([]byte{'0' + byte(n)})
	}
	return string([]byte{'0' + byte(n/10%10), '0' + byte(n%10)})
}
