//go:build verif

package gohlslib

// MPEG-TS client harness: the real clientStreamProcessorMPEGTS / clientTrackProcessorMPEGTS /
// clientTimeConvMPEGTS (with mediacommon's real TimeDecoder) on demuxed samples scripted by the
// harness (mpegts.Reader is the dependency boundary: it hands the samples of the current segment
// to the registered callbacks, in file order).

import (
	"bytes"
	"io"
	"time"

	"github.com/asticode/go-astits"
	"github.com/bluenviron/mediacommon/v2/pkg/codecs/mpeg4audio"
	"github.com/bluenviron/mediacommon/v2/pkg/formats/mpegts"
)

//verif:stub (*github.com/bluenviron/mediacommon/v2/pkg/formats/mpegts.Reader).Initialize verifStub_TSReaderInit
//verif:stub (*github.com/bluenviron/mediacommon/v2/pkg/formats/mpegts.Reader).Tracks verifStub_TSReaderTracks
//verif:stub (*github.com/bluenviron/mediacommon/v2/pkg/formats/mpegts.Reader).OnDecodeError verifStub_TSReaderOnDecodeError
//verif:stub (*github.com/bluenviron/mediacommon/v2/pkg/formats/mpegts.Reader).OnDataH264 verifStub_TSReaderOnDataH264
//verif:stub (*github.com/bluenviron/mediacommon/v2/pkg/formats/mpegts.Reader).OnDataMPEG4Audio verifStub_TSReaderOnDataMPEG4Audio
//verif:stub (*github.com/bluenviron/mediacommon/v2/pkg/formats/mpegts.Reader).Read verifStub_TSReaderRead

var (
	verifTSClientTracks []*mpegts.Track
	verifTSCbVideo      = map[*mpegts.Track]mpegts.ReaderOnDataH264Func{}
	verifTSCbAudio      = map[*mpegts.Track]mpegts.ReaderOnDataMPEG4AudioFunc{}
)

func verifStub_TSReaderInit(r *mpegts.Reader) error                                  { return nil }
func verifStub_TSReaderTracks(r *mpegts.Reader) []*mpegts.Track                      { return verifTSClientTracks }
func verifStub_TSReaderOnDecodeError(r *mpegts.Reader, cb mpegts.ReaderOnDecodeErrorFunc) {}
func verifStub_TSReaderOnDataH264(r *mpegts.Reader, t *mpegts.Track, cb mpegts.ReaderOnDataH264Func) {
	verifTSCbVideo[t] = cb
}
func verifStub_TSReaderOnDataMPEG4Audio(r *mpegts.Reader, t *mpegts.Track, cb mpegts.ReaderOnDataMPEG4AudioFunc) {
	verifTSCbAudio[t] = cb
}

func verifStub_TSReaderRead(r *mpegts.Reader) error {
	b := make([]byte, 4)
	n, _ := io.ReadFull(r.R, b)
	if n != 4 {
		return astits.ErrNoMorePackets
	}
	if b[0] != 'T' || b[3] != 0xEE {
		return &verifBlobError{"not a TS record"}
	}
	rec := verifTSLog[int(b[1])|int(b[2])<<8]
	if rec.video {
		if cb := verifTSCbVideo[rec.track]; cb != nil {
			return cb(rec.pts, rec.dts, rec.au)
		}
		return nil
	}
	if cb := verifTSCbAudio[rec.track]; cb != nil {
		return cb(rec.pts, rec.au)
	}
	return nil
}

// vTSSeg builds one segment with mediacommon's MPEG-TS writer (symbolically: the writer stub of
// mux_stubs.go, which logs the sample and emits a tag the reader stub resolves; natively: real MPEG-TS).
type vTSSeg struct {
	buf bytes.Buffer
	w   *mpegts.Writer
}

func verifNewTSSeg(tracks []*mpegts.Track) *vTSSeg {
	s := &vTSSeg{}
	s.w = &mpegts.Writer{W: &s.buf, Tracks: tracks}
	if err := s.w.Initialize(); err != nil {
		panic(err)
	}
	return s
}

func verifHasNALU(au [][]byte, typ byte, tag byte) bool {
	for _, n := range au {
		if len(n) == 2 && n[0] == typ && n[1] == tag {
			return true
		}
	}
	return false
}

// VerifH_C10_ts: a well-formed MPEG-TS stream with 33-bit timestamps anywhere on the circle
// (wrap inside the stream included): video + optional audio, 1..2 segments, any file order of
// video and audio samples after the first video sample, with/without PROGRAM-DATE-TIME.
func VerifH_C10_ts() {
	verifTSLog = nil
	verifTSCbVideo = map[*mpegts.Track]mpegts.ReaderOnDataH264Func{}
	verifTSCbAudio = map[*mpegts.Track]mpegts.ReaderOnDataMPEG4AudioFunc{}
	vt := &mpegts.Track{Codec: &mpegts.CodecH264{}}
	at := &mpegts.Track{Codec: &mpegts.CodecMPEG4Audio{Config: mpeg4audio.Config{Type: 2, SampleRate: 44100, ChannelCount: 2}}}
	withAudio := verifBool("withaudio")
	unexpected := verifParam("UNEXPECTED", 0) == 1
	verifTSClientTracks = []*mpegts.Track{vt}
	if withAudio {
		verifTSClientTracks = append(verifTSClientTracks, at)
	}
	const wrap = int64(1) << 33
	T0 := verifRangeI64("t0", 0, wrap-1) // true time of the first video unit = its raw 33-bit timestamp
	nseg := 1 + verifChoice("nsegs", verifParam("MAXSEGS", 2))
	type exp struct {
		track    int
		dts, pts int64 // expected normalised
		data     byte
		seg      int
		segFirst int64
		// a non-leading unit that precedes its segment's first leading unit in the file is anchored through the
		// previous segment's date-time; its AbsoluteTime is outside the claim (exact only for a gap-free wall clock)
		beforeLead bool
	}
	var want []exp
	t0 := time.Date(2023, 5, 5, 5, 5, 5, 0, time.UTC)
	var dtl []*time.Time
	var payloads [][]byte
	tv, ta := T0, T0 // true times (unwrapped)
	tag := byte(0)
	lastSegFirst := int64(0)
	for s := 0; s < nseg; s++ {
		seg := verifNewTSSeg(verifTSClientTracks)
		segFirst := tv - T0
		prevSegFirst := lastSegFirst
		lastSegFirst = segFirst
		nv := 1 + verifChoice("nvideo", verifParam("MAXV", 2))
		na := 0
		if withAudio {
			na = verifChoice("naudio", verifParam("MAXA", 2)+1)
			if s == 0 && na == 0 {
				na = 1 // a demuxer needs data of every declared track in the first segment to find its parameters
			}
		}
		audioFirst := s > 0 && na > 0 && verifBool("audiofirst") // file order inside later segments is free
		if unexpected && s == 0 && na > 0 {
			// C13: well-formed but unexpected first segment: audio before the first video unit, or no video data at all
			audioFirst = verifBool("audiofirst0")
			if verifBool("novideo0") {
				nv = 0
			}
		}
		if audioFirst && na < 2 {
			na = 2 // a real demuxer hands a PES over when the next one of the same stream starts: two audio units put the first one before the video
		}
		emitV := func() {
			for k := 0; k < nv; k++ {
				off := verifRangeI64("vptsoff", 0, 1<<16)
				err := seg.w.WriteH264(vt, (tv+off)%wrap, tv%wrap, [][]byte{{5, tag}})
				verifAssume(err == nil)
				want = append(want, exp{track: 0, dts: tv - T0, pts: tv + off - T0, data: tag, seg: s, segFirst: segFirst})
				tag++
				tv += verifRangeI64("vdelta", 1, 1<<20)
			}
		}
		emitA := func() {
			for k := 0; k < na; k++ {
				err := seg.w.WriteMPEG4Audio(at, ta%wrap, [][]byte{{0xA0, tag}})
				verifAssume(err == nil)
				want = append(want, exp{track: 1, dts: ta - T0, pts: ta - T0, data: tag, seg: s, segFirst: segFirst, beforeLead: audioFirst})
				tag++
				ta += verifRangeI64("adelta", 1, 1<<20)
			}
		}
		if audioFirst {
			emitA()
			emitV()
		} else {
			emitV()
			emitA()
		}
		payloads = append(payloads, append([]byte(nil), seg.buf.Bytes()...))
		if verifBool("datetime") {
			_ = prevSegFirst
			t := t0.Add(time.Duration(s) * 10 * time.Second) // the wall clock may jump between segments
			dtl = append(dtl, &t)
		} else {
			dtl = append(dtl, nil)
		}
	}
	// run the real processor
	rp := &clientRoutinePool{}
	rp.initialize()
	q := &clientSegmentQueue{}
	q.initialize()
	for i, p := range payloads {
		q.push(&segmentData{dateTime: dtl[i], payload: p})
	}
	q.push(nil)
	sd := &vSD{}
	cl := &vClientStub{ready: make(chan struct{})}
	proc := &clientStreamProcessorMPEGTS{onDecodeError: func(error) {}, isLeading: true, segmentQueue: q, rp: rp, streamDownloader: sd, client: cl}
	proc.initialize()
	rp.add(proc)
	verifQuiesce()
	gotErr := false
	select {
	case e := <-rp.errorChan():
		gotErr = true
		verifLog("routine error:", e.Error())
	default:
	}
	ended := sd.ended
	rp.close()
	verifReach("ran")
	if unexpected {
		// no panic, no deadlock (engine checks), Close honoured; the stream ends (units skipped) or Wait yields an error
		verifAssert("C13", "skips-the-piece-or-ends-with-an-error", gotErr || ended)
		verifAssert("C13", "no-routine-left-after-close", verifLiveThreads() == 0)
		return
	}
	verifAssert("C10", "no-error-on-well-formed-stream", !gotErr)
	verifAssert("C10", "end-of-stream-signalled", ended)
	verifAssert("C10", "reports-exactly-the-stream-tracks", len(sd.tracks) == len(verifTSClientTracks))
	for _, tr := range sd.tracks {
		verifAssert("C10", "mpegts-clock-rate-90k", tr.ClockRate == 90000)
	}
	for ti := 0; ti < len(verifTSClientTracks); ti++ {
		var got []*vDelivered
		for _, d := range sd.delivered {
			if d.track == ti {
				got = append(got, d)
			}
		}
		gi := 0
		for _, e := range want {
			if e.track != ti || e.pts < 0 {
				continue
			}
			if gi >= len(got) {
				verifFail("C10", "unit-delivered")
				continue
			}
			g := got[gi]
			gi++
			verifAssert("C10", "unit-times-normalised", g.dts == e.dts && g.pts == e.pts)
			if ti == 0 {
				verifAssert("C10", "unit-bytes", verifHasNALU(g.data, 5, e.data))
			} else {
				verifAssert("C10", "unit-bytes", verifHasNALU(g.data, 0xA0, e.data))
			}
			if dtl[e.seg] != nil && !e.beforeLead {
				wantAbs := dtl[e.seg].Add(timestampToDuration(e.dts-e.segFirst, 90000))
				// "when available": always for the leading track of a dated segment
				verifAssert("C10", "absolute-time-available-for-leading-track", g.ntp != nil || ti != 0)
				verifAssert("C10", "absolute-time", g.ntp == nil || verifAbsDur(g.ntp.Sub(wantAbs)) <= 2*time.Microsecond)
			}
		}
		verifAssert("C10", "nothing-invented-or-negative", gi == len(got))
	}
	verifAssert("C12", "no-routine-left-after-close", verifLiveThreads() == 0)
}

// VerifH_C12_tsBackpressure: a segment with more samples than the per-track queue holds while the
// track processor sleeps on a pacing timer: the stream processor blocks in push; Close must still
// terminate every routine.
func VerifH_C12_tsBackpressure() {
	verifTSLog = nil
	verifTSCbVideo = map[*mpegts.Track]mpegts.ReaderOnDataH264Func{}
	verifTSCbAudio = map[*mpegts.Track]mpegts.ReaderOnDataMPEG4AudioFunc{}
	verifElapsedZero = true
	defer func() { verifElapsedZero = false }()
	vt := &mpegts.Track{Codec: &mpegts.CodecH264{}}
	verifTSClientTracks = []*mpegts.Track{vt}
	N := clientMPEGTSSampleQueueSize + 2 + verifChoice("extra", 3)
	seg := verifNewTSSeg(verifTSClientTracks)
	for k := 0; k < N; k++ {
		err := seg.w.WriteH264(vt, int64(k)*30000, int64(k)*30000, [][]byte{{5, byte(k)}})
		verifAssume(err == nil)
	}
	payload := append([]byte(nil), seg.buf.Bytes()...)
	rp := &clientRoutinePool{}
	rp.initialize()
	q := &clientSegmentQueue{}
	q.initialize()
	q.push(&segmentData{payload: payload})
	sd := &vSD{nativePacing: !verifSymbolic()}
	cl := &vClientStub{ready: make(chan struct{})}
	proc := &clientStreamProcessorMPEGTS{onDecodeError: func(error) {}, isLeading: true, segmentQueue: q, rp: rp, streamDownloader: sd, client: cl}
	proc.initialize()
	rp.add(proc)
	verifQuiesce()
	verifReach("backpressure")
	if verifSymbolic() {
		verifAssert("C12", "stream-processor-throttled-not-failed", verifLiveThreads() >= 2)
		rp.close() // Close while the queue is full: must return (a deadlock here is reported by the engine)
		verifAssert("C12", "no-routine-left-after-close", verifLiveThreads() == 0)
	} else {
		time.Sleep(300 * time.Millisecond) // the track processor is asleep pacing a sample, the queue fills up
		closed := make(chan struct{})
		go func() { rp.close(); close(closed) }()
		select {
		case <-closed:
		case <-time.After(3 * time.Second):
			verifFail("C12", "no-routine-left-after-close")
		}
	}
	verifReach("end")
}
