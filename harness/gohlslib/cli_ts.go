//go:build verif

package gohlslib

// MPEG-TS client harness: the real clientStreamProcessorMPEGTS / clientTrackProcessorMPEGTS /
// clientTimeConvMPEGTS (with mediacommon's real TimeDecoder) on demuxed samples scripted by the
// harness (mpegts.Reader is the dependency boundary: it hands the samples of the current segment
// to the registered callbacks, in file order).

import (
	"bytes"
	"io"
	"time"

	"github.com/asticode/go-astits"
	"github.com/bluenviron/mediacommon/v2/pkg/formats/mpegts"
)

//verif:stub (*github.com/bluenviron/mediacommon/v2/pkg/formats/mpegts.Reader).Initialize verifStub_TSReaderInit
//verif:stub (*github.com/bluenviron/mediacommon/v2/pkg/formats/mpegts.Reader).Tracks verifStub_TSReaderTracks
//verif:stub (*github.com/bluenviron/mediacommon/v2/pkg/formats/mpegts.Reader).OnDecodeError verifStub_TSReaderOnDecodeError
//verif:stub (*github.com/bluenviron/mediacommon/v2/pkg/formats/mpegts.Reader).OnDataH264 verifStub_TSReaderOnDataH264
//verif:stub (*github.com/bluenviron/mediacommon/v2/pkg/formats/mpegts.Reader).OnDataMPEG4Audio verifStub_TSReaderOnDataMPEG4Audio
//verif:stub (*github.com/bluenviron/mediacommon/v2/pkg/formats/mpegts.Reader).Read verifStub_TSReaderRead

var (
	verifTSClientTracks []*mpegts.Track
	verifTSIn           []*verifTSRecord
	verifTSCbVideo      = map[*mpegts.Track]mpegts.ReaderOnDataH264Func{}
	verifTSCbAudio      = map[*mpegts.Track]mpegts.ReaderOnDataMPEG4AudioFunc{}
)

func verifStub_TSReaderInit(r *mpegts.Reader) error                                  { return nil }
func verifStub_TSReaderTracks(r *mpegts.Reader) []*mpegts.Track                      { return verifTSClientTracks }
func verifStub_TSReaderOnDecodeError(r *mpegts.Reader, cb mpegts.ReaderOnDecodeErrorFunc) {}
func verifStub_TSReaderOnDataH264(r *mpegts.Reader, t *mpegts.Track, cb mpegts.ReaderOnDataH264Func) {
	verifTSCbVideo[t] = cb
}
func verifStub_TSReaderOnDataMPEG4Audio(r *mpegts.Reader, t *mpegts.Track, cb mpegts.ReaderOnDataMPEG4AudioFunc) {
	verifTSCbAudio[t] = cb
}

func verifStub_TSReaderRead(r *mpegts.Reader) error {
	b := make([]byte, 4)
	n, _ := io.ReadFull(r.R, b)
	if n != 4 {
		return astits.ErrNoMorePackets
	}
	if b[0] != 'T' || b[3] != 0xEE {
		return &verifBlobError{"not a TS record"}
	}
	rec := verifTSIn[int(b[1])|int(b[2])<<8]
	if rec.video {
		if cb := verifTSCbVideo[rec.track]; cb != nil {
			return cb(rec.pts, rec.dts, rec.au)
		}
		return nil
	}
	if cb := verifTSCbAudio[rec.track]; cb != nil {
		return cb(rec.pts, rec.au)
	}
	return nil
}

func verifTSBlob(idx int) []byte { return []byte{'T', byte(idx), byte(idx >> 8), 0xEE} }

// VerifH_C10_ts: a well-formed MPEG-TS stream with 33-bit timestamps anywhere on the circle
// (wrap inside the stream included): video + optional audio, 1..2 segments, any file order of
// video and audio samples after the first video sample, with/without PROGRAM-DATE-TIME.
func VerifH_C10_ts() {
	verifTSIn = nil
	verifTSCbVideo = map[*mpegts.Track]mpegts.ReaderOnDataH264Func{}
	verifTSCbAudio = map[*mpegts.Track]mpegts.ReaderOnDataMPEG4AudioFunc{}
	vt := &mpegts.Track{Codec: &mpegts.CodecH264{}}
	at := &mpegts.Track{Codec: &mpegts.CodecMPEG4Audio{}}
	withAudio := verifBool("withaudio")
	verifTSClientTracks = []*mpegts.Track{vt}
	if withAudio {
		verifTSClientTracks = append(verifTSClientTracks, at)
	}
	const wrap = int64(1) << 33
	T0 := verifRangeI64("t0", 0, wrap-1) // true time of the first video unit = its raw 33-bit timestamp
	nseg := 1 + verifChoice("nsegs", verifParam("MAXSEGS", 2))
	type exp struct {
		track    int
		dts, pts int64 // expected normalised
		data     byte
		seg      int
		segFirst int64
	}
	var want []exp
	t0 := time.Date(2023, 5, 5, 5, 5, 5, 0, time.UTC)
	var dtl []*time.Time
	var payloads [][]byte
	tv, ta := T0, T0 // true times (unwrapped)
	tag := byte(0)
	lastSegFirst := int64(0)
	for s := 0; s < nseg; s++ {
		var payload []byte
		segFirst := tv - T0
		prevSegFirst := lastSegFirst
		lastSegFirst = segFirst
		nv := 1 + verifChoice("nvideo", verifParam("MAXV", 2))
		na := 0
		if withAudio {
			na = verifChoice("naudio", verifParam("MAXA", 2)+1)
		}
		audioFirst := s > 0 && na > 0 && verifBool("audiofirst") // file order inside later segments is free
		emitV := func() {
			for k := 0; k < nv; k++ {
				off := verifRangeI64("vptsoff", 0, 1<<16)
				rec := &verifTSRecord{track: vt, video: true, dts: tv % wrap, pts: (tv + off) % wrap, au: [][]byte{{5, tag}}}
				verifTSIn = append(verifTSIn, rec)
				payload = append(payload, verifTSBlob(len(verifTSIn)-1)...)
				want = append(want, exp{track: 0, dts: tv - T0, pts: tv + off - T0, data: tag, seg: s, segFirst: segFirst})
				tag++
				tv += verifRangeI64("vdelta", 1, 1<<20)
			}
		}
		emitA := func() {
			for k := 0; k < na; k++ {
				rec := &verifTSRecord{track: at, dts: ta % wrap, pts: ta % wrap, au: [][]byte{{0xA0, tag}}}
				verifTSIn = append(verifTSIn, rec)
				payload = append(payload, verifTSBlob(len(verifTSIn)-1)...)
				want = append(want, exp{track: 1, dts: ta - T0, pts: ta - T0, data: tag, seg: s, segFirst: segFirst})
				tag++
				ta += verifRangeI64("adelta", 1, 1<<20)
			}
		}
		if audioFirst {
			emitA()
			emitV()
		} else {
			emitV()
			emitA()
		}
		payloads = append(payloads, payload)
		if verifBool("datetime") {
			// wall clock jumps between segments are allowed, except where non-leading units precede the
			// segment's first leading unit in the file: those are anchored through the previous segment, which
			// is only exact when PROGRAM-DATE-TIME is consistent with media time (stated as outside the claim)
			t := t0.Add(time.Duration(s) * 10 * time.Second)
			if audioFirst {
				t = t0.Add(time.Duration(s-1)*10*time.Second + timestampToDuration(segFirst, 90000) - timestampToDuration(prevSegFirst, 90000))
				if dtl[s-1] == nil {
					t = t0.Add(time.Duration(s) * 10 * time.Second)
				}
			}
			dtl = append(dtl, &t)
		} else {
			dtl = append(dtl, nil)
		}
	}
	// run the real processor
	rp := &clientRoutinePool{}
	rp.initialize()
	q := &clientSegmentQueue{}
	q.initialize()
	for i, p := range payloads {
		q.push(&segmentData{dateTime: dtl[i], payload: p})
	}
	q.push(nil)
	sd := &vSD{}
	cl := &vClientStub{ready: make(chan struct{})}
	proc := &clientStreamProcessorMPEGTS{onDecodeError: func(error) {}, isLeading: true, segmentQueue: q, rp: rp, streamDownloader: sd, client: cl}
	proc.initialize()
	rp.add(proc)
	verifQuiesce()
	gotErr := false
	select {
	case e := <-rp.errorChan():
		gotErr = true
		verifLog("routine error:", e.Error())
	default:
	}
	ended := sd.ended
	rp.close()
	verifReach("ran")
	verifAssert("C10", "no-error-on-well-formed-stream", !gotErr)
	verifAssert("C10", "end-of-stream-signalled", ended)
	verifAssert("C10", "reports-exactly-the-stream-tracks", len(sd.tracks) == len(verifTSClientTracks))
	for _, tr := range sd.tracks {
		verifAssert("C10", "mpegts-clock-rate-90k", tr.ClockRate == 90000)
	}
	for ti := 0; ti < len(verifTSClientTracks); ti++ {
		var got []*vDelivered
		for _, d := range sd.delivered {
			if d.track == ti {
				got = append(got, d)
			}
		}
		gi := 0
		for _, e := range want {
			if e.track != ti || e.pts < 0 {
				continue
			}
			if gi >= len(got) {
				verifFail("C10", "unit-delivered")
				continue
			}
			g := got[gi]
			gi++
			verifAssert("C10", "unit-times-normalised", g.dts == e.dts && g.pts == e.pts)
			verifAssert("C10", "unit-bytes", len(g.data) == 1 && bytes.Equal(g.data[0][1:], []byte{e.data}))
			if dtl[e.seg] != nil {
				wantAbs := dtl[e.seg].Add(timestampToDuration(e.dts-e.segFirst, 90000))
				// "when available": always for the leading track of a dated segment
				verifAssert("C10", "absolute-time-available-for-leading-track", g.ntp != nil || ti != 0)
				verifAssert("C10", "absolute-time", g.ntp == nil || verifAbsDur(g.ntp.Sub(wantAbs)) <= 2*time.Microsecond)
			}
		}
		verifAssert("C10", "nothing-invented-or-negative", gi == len(got))
	}
	verifAssert("C12", "no-routine-left-after-close", verifLiveThreads() == 0)
}

// VerifH_C12_tsBackpressure: a segment with more samples than the per-track queue holds while the
// track processor sleeps on a pacing timer: the stream processor blocks in push; Close must still
// terminate every routine.
func VerifH_C12_tsBackpressure() {
	verifTSIn = nil
	verifTSCbVideo = map[*mpegts.Track]mpegts.ReaderOnDataH264Func{}
	verifTSCbAudio = map[*mpegts.Track]mpegts.ReaderOnDataMPEG4AudioFunc{}
	verifElapsedZero = true
	defer func() { verifElapsedZero = false }()
	vt := &mpegts.Track{Codec: &mpegts.CodecH264{}}
	verifTSClientTracks = []*mpegts.Track{vt}
	N := clientMPEGTSSampleQueueSize + 2 + verifChoice("extra", 3)
	var payload []byte
	for k := 0; k < N; k++ {
		rec := &verifTSRecord{track: vt, video: true, dts: int64(k) * 3000, pts: int64(k) * 3000, au: [][]byte{{5, byte(k)}}}
		verifTSIn = append(verifTSIn, rec)
		payload = append(payload, verifTSBlob(len(verifTSIn)-1)...)
	}
	rp := &clientRoutinePool{}
	rp.initialize()
	q := &clientSegmentQueue{}
	q.initialize()
	q.push(&segmentData{payload: payload})
	sd := &vSD{}
	cl := &vClientStub{ready: make(chan struct{})}
	proc := &clientStreamProcessorMPEGTS{onDecodeError: func(error) {}, isLeading: true, segmentQueue: q, rp: rp, streamDownloader: sd, client: cl}
	proc.initialize()
	rp.add(proc)
	verifQuiesce()
	verifReach("backpressure")
	verifAssert("C12", "stream-processor-throttled-not-failed", verifLiveThreads() >= 2)
	rp.close() // Close while the queue is full: must return (a deadlock here is reported by the engine)
	verifAssert("C12", "no-routine-left-after-close", verifLiveThreads() == 0)
	verifReach("end")
}
