//go:build verif

package gohlslib

// C10 - renditions: the whole real Client on a multivariant VOD stream whose audio is a separate rendition playlist
// with its own timescale and its own (arbitrary) base time; both stream processors, the shared leading time
// converter and the hand-off between them run as engine threads. Delivered times of BOTH tracks must be the container
// timestamps minus the first DTS of the leading (video) track, each in its own clock rate.

import (
	"bytes"
	"net/http"
	"strconv"
	"time"

	"github.com/bluenviron/gohlslib/v2/pkg/codecs"
	"github.com/bluenviron/gohlslib/v2/pkg/playlist"
	"github.com/bluenviron/mediacommon/v2/pkg/codecs/mpeg4audio"
	"github.com/bluenviron/mediacommon/v2/pkg/formats/fmp4"
)

type vRendUnit struct {
	dts, pts int64
	payload  []byte
}

// verifRendStream: a VOD media playlist (1 fragment x 1 sample per segment) with the given base time and durations
func verifRendStream(prefix string, codec fmp4.Codec, rate int, base uint64, durs []uint32, offs []int32, video bool) (*vScript, []vRendUnit) {
	in := &fmp4.Init{Tracks: []*fmp4.InitTrack{{ID: 1, TimeScale: uint32(rate), Codec: codec}}}
	s := &vScript{initBytes: verifMarshalInit(in), faultAt: -1}
	vod := playlist.MediaPlaylistType(playlist.MediaPlaylistTypeVOD)
	s.pl = &playlist.Media{Version: 7, TargetDuration: 2, PlaylistType: &vod, Endlist: true, Map: &playlist.MediaMap{URI: prefix + "init.mp4"}}
	var units []vRendUnit
	cur := base
	for i := range durs {
		unit := []byte{0xA0, byte(i)}
		pay := unit
		if video {
			unit = []byte{5, byte(i)}
			pay = verifH264Payload(byte(i))
		}
		p := &fmp4.Part{SequenceNumber: uint32(i), Tracks: []*fmp4.PartTrack{{ID: 1, BaseTime: cur,
			Samples: []*fmp4.PartSample{{Duration: durs[i], PTSOffset: offs[i], Payload: pay}}}}}
		units = append(units, vRendUnit{dts: int64(cur), pts: int64(cur) + int64(offs[i]), payload: unit})
		cur += uint64(durs[i])
		s.segBytes = append(s.segBytes, verifMarshalParts([]*fmp4.Part{p}))
		s.pl.Segments = append(s.pl.Segments, &playlist.MediaSegment{Duration: time.Second, URI: prefix + "seg" + itoaSmall(i) + ".mp4"})
	}
	return s, units
}

func VerifH_C10_rendition() {
	verifReqLog, verifPlaylists = nil, nil
	verifPartLog, verifInitLog = nil, nil
	verifFaultHook = nil
	nseg := 1 + verifChoice("nsegs", verifParam("MAXSEGS", 2))
	rateA := []int{48000, 44100}[verifChoice("audiorate", 2)]
	var acodec fmp4.Codec = &fmp4.CodecOpus{ChannelCount: 2}
	if rateA == 44100 {
		acodec = &fmp4.CodecMPEG4Audio{Config: mpeg4audio.Config{Type: 2, SampleRate: 44100, ChannelCount: 2}}
	}
	bits := uint(verifParam("BASEBITS", 30))
	bv := uint64(verifRangeI64("basev", 0, int64(1)<<bits))
	ba := uint64(verifRangeI64("basea", 0, int64(1)<<bits))
	var vd, ad []uint32
	var vo, ao []int32
	for i := 0; i < nseg; i++ {
		// natively the client paces delivery in real time: keep the replayed stream short
		vd = append(vd, uint32(verifRangeI64("vdur", 0, 9000)))
		ad = append(ad, uint32(verifRangeI64("adur", 0, 4800)))
		vo = append(vo, int32(verifRangeI64("vptsoff", 0, 3000)))
		ao = append(ao, 0)
	}
	sc, vunits := verifRendStream("v", &fmp4.CodecH264{SPS: verifTestSPS, PPS: []byte{8}}, 90000, bv, vd, vo, true)
	au, aunits := verifRendStream("a", acodec, rateA, ba, ad, ao, false)
	// byte-range addressing of the init segment (EXT-X-MAP BYTERANGE n[@o]; without @o the range starts at byte 0)
	mapRange := verifBool("maprange")
	var mapLen, mapStart uint64
	if mapRange {
		mapLen = uint64(verifRangeI64("maplen", 1, 9999))
		sc.pl.Map.ByteRangeLength = &mapLen
		if verifBool("mapstart") {
			mapStart = uint64(verifRangeI64("mapstartv", 0, 9999))
			sc.pl.Map.ByteRangeStart = &mapStart
		}
	}
	auri := "audio/audio.m3u8" // variant and rendition playlists live in different directories below the multivariant playlist
	acs := "opus"
	if rateA == 44100 {
		acs = "mp4a.40.2"
	}
	mv := &playlist.Multivariant{Version: 7, Variants: []*playlist.MultivariantVariant{{Bandwidth: 1000, Codecs: []string{"avc1.42c028", acs}, URI: "video/stream.m3u8", Audio: "aud"}},
		Renditions: []*playlist.MultivariantRendition{{Type: playlist.MultivariantRenditionTypeAudio, GroupID: "aud", Name: "english", Language: "en", Default: true, URI: &auri}}}
	mvBlob, plBlob, aplBlob := verifPlaylistBlob(mv), verifPlaylistBlob(sc.pl), verifPlaylistBlob(au.pl)
	verifResponder = func(req *http.Request) (int, []byte, error) {
		u := req.URL.String()
		switch {
		case containsStr(u, "index.m3u8"):
			return 200, mvBlob, nil
		case containsStr(u, "audio.m3u8"):
			return 200, aplBlob, nil
		case containsStr(u, ".m3u8"):
			return 200, plBlob, nil
		case containsStr(u, "vinit.mp4"):
			return 200, sc.initBytes, nil
		case containsStr(u, "ainit.mp4"):
			return 200, au.initBytes, nil
		}
		i := int(u[len(u)-5] - '0')
		if containsStr(u, "/aseg") {
			return 200, au.segBytes[i], nil
		}
		return 200, sc.segBytes[i], nil
	}
	var gotV, gotA []vRendUnit
	var reported []*Track
	c := &Client{URI: "http://host.example/vod/index.m3u8", HTTPClient: &http.Client{Transport: verifRoundTripper{}},
		OnDownloadPrimaryPlaylist: func(string) {}, OnDownloadStreamPlaylist: func(string) {}, OnDownloadSegment: func(string) {},
		OnDownloadPart: func(string) {}, OnDecodeError: func(error) {}}
	c.OnTracks = func(tracks []*Track) error {
		reported = tracks
		for _, t := range tracks {
			t := t
			switch t.Codec.(type) {
			case *codecs.H264:
				c.OnDataH26x(t, func(pts int64, dts int64, au [][]byte) {
					var cat []byte
					for _, n := range au {
						cat = append(cat, n...)
					}
					gotV = append(gotV, vRendUnit{dts: dts, pts: pts, payload: cat})
				})
			case *codecs.Opus:
				c.OnDataOpus(t, func(pts int64, packets [][]byte) { gotA = append(gotA, vRendUnit{dts: pts, pts: pts, payload: packets[0]}) })
			case *codecs.MPEG4Audio:
				c.OnDataMPEG4Audio(t, func(pts int64, aus [][]byte) { gotA = append(gotA, vRendUnit{dts: pts, pts: pts, payload: aus[0]}) })
			}
		}
		return nil
	}
	err := c.Start()
	verifAssert("C10", "client-starts", err == nil)
	var werr error
	if verifSymbolic() {
		werr = <-c.Wait()
	} else {
		select {
		case werr = <-c.Wait():
		case <-time.After(5 * time.Second):
			verifFail("C10", "end-of-stream-signalled")
			c.Close()
			return
		}
	}
	verifReach("ran")
	verifAssert("C10", "end-of-stream-signalled", werr == ErrClientEOS)
	verifAssert("C10", "reports-exactly-the-stream-tracks", len(reported) == 2)
	if len(reported) == 2 {
		verifAssert("C10", "track-clock-rates", reported[0].ClockRate == 90000 && reported[1].ClockRate == rateA)
	}
	// origin = first DTS of the leading (video) track; in the audio clock it is converted with at most one tick of rounding
	origin := int64(bv)
	check := func(name string, want []vRendUnit, got []vRendUnit, o int64, tol int64) {
		gi := 0
		for _, w := range want {
			// a unit is dropped when it precedes the origin; within the conversion tolerance either outcome is accepted
			if w.pts-o < -tol {
				continue
			}
			if w.pts-o < tol && (gi >= len(got) || !bytes.Equal(got[gi].payload, w.payload)) {
				continue
			}
			if gi >= len(got) {
				verifFail("C10", "unit-delivered")
				continue
			}
			g := got[gi]
			gi++
			verifAssert("C10", "unit-bytes", bytes.Equal(g.payload, w.payload))
			d := g.dts - (w.dts - o)
			verifAssert("C10", "unit-times-normalised", d >= -tol && d <= tol && g.pts-g.dts == w.pts-w.dts)
			verifAssert("C10", "no-negative-pts-delivered", g.pts >= 0)
		}
		verifAssert("C10", "nothing-invented-or-negative", gi == len(got))
	}
	for _, rq := range verifReqLog {
		// every URI is resolved against the URL of the playlist that lists it
		switch {
		case containsStr(rq.url, "index.m3u8"):
		case containsStr(rq.url, "audio.m3u8"):
			verifAssert("C10", "uris-resolved-against-their-playlist", rq.url == "http://host.example/vod/audio/audio.m3u8")
		case containsStr(rq.url, "stream.m3u8"):
			verifAssert("C10", "uris-resolved-against-their-playlist", rq.url == "http://host.example/vod/video/stream.m3u8")
		case containsStr(rq.url, "/ainit.mp4") || containsStr(rq.url, "/aseg"):
			verifAssert("C10", "uris-resolved-against-their-playlist", len(rq.url) > 30 && rq.url[:30] == "http://host.example/vod/audio/")
		default:
			verifAssert("C10", "uris-resolved-against-their-playlist", len(rq.url) > 30 && rq.url[:30] == "http://host.example/vod/video/")
		}
		if containsStr(rq.url, "vinit.mp4") {
			if mapRange {
				verifAssert("C10", "init-requested-with-its-byte-range", rq.isSet && rq.rng == "bytes="+strconv.FormatUint(mapStart, 10)+"-"+strconv.FormatUint(mapStart+mapLen-1, 10))
			} else {
				verifAssert("C10", "init-requested-whole", !rq.isSet)
			}
		}
	}
	check("video", vunits, gotV, origin, 0)
	check("audio", aunits, gotA, multiplyAndDivide(origin, int64(rateA), 90000), 1)
	verifReach("end")
}
