//go:build verif

package gohlslib

// C18 — retention stays bounded even when a Write fails in the middle of a segment rotation
// (the init file cannot be regenerated because the encoder emitted a malformed AV1 sequence
// header) and the stream then recovers.

import (
	"time"

	"github.com/bluenviron/gohlslib/v2/pkg/codecs"
	"github.com/bluenviron/gohlslib/v2/pkg/playlist"
)

var (
	verifAV1Good  = []byte{8, 0, 0, 0, 66, 167, 191, 228, 96, 13, 0, 64}
	verifAV1Bad   = []byte{0x0a, 0x01, 0x00} // sequence header OBU with a truncated body
	verifAV1Frame = []byte{0x32, 0x04, 0x01, 0x02, 0x03, 0x04}
)

func VerifH_C18_initfail() {
	verifPartLog, verifInitLog, verifMediaLog, verifMultiLog, verifTSLog = nil, nil, nil, nil, nil
	if verifSymbolic() {
		verifFSReset()
	}
	tr := &Track{Codec: &codecs.AV1{SequenceHeader: verifAV1Good}, ClockRate: 90000}
	m := &Muxer{Variant: MuxerVariantFMP4, SegmentCount: 3, SegmentMinDuration: time.Second, Tracks: []*Track{tr},
		Directory: verifDirectory(), OnEncodeError: func(error) {}}
	err := m.Start()
	verifAssert("*", "start-accepts-configuration", err == nil)
	K := verifParam("K", 9)
	pts := int64(0)
	failures := 0
	for k := 0; k < K; k++ {
		hdr := verifAV1Good
		if k >= 3 && verifChoice("badheader", 2) == 1 {
			hdr = verifAV1Bad
		}
		pts += verifRangeI64("delta", 90000, 180000)
		err := m.WriteAV1(tr, verifNTPBase.Add(time.Duration(k)*time.Second), pts, [][]byte{hdr, verifAV1Frame})
		if err != nil {
			failures++
			verifReach("write-failed")
		}
		m.mutex.Lock()
		has := m.streams[0].hasContent()
		m.mutex.Unlock()
		if !has {
			continue
		}
		w := verifGet(m, "video1_stream.m3u8")
		if w.code != 200 {
			continue
		}
		var pl playlist.Media
		if pl.Unmarshal(w.body) != nil {
			continue
		}
		verifAssert("C18", "at-most-segmentcount-listed", len(pl.Segments) <= 3)
		if verifDirectoryName != "" {
			verifAssert("C18", "directory-files-bounded", verifLiveFiles() <= 3+1)
		}
	}
	verifReach("end")
}
