//go:build verif

package gohlslib

import "context"

// C20 — clientSegmentQueue: FIFO / exactly-once (step) and no lost wake-up (conc).

func verifMkQueue(n int) (*clientSegmentQueue, []*segmentData) {
	q := &clientSegmentQueue{}
	q.initialize()
	var segs []*segmentData
	for i := 0; i < n; i++ {
		s := &segmentData{}
		segs = append(segs, s)
		q.queue = append(q.queue, s)
	}
	return q, segs
}

// VerifH_C20_step: from an arbitrary queue (len 0..3), a symbolic sequence of K operations
// (push / pull-when-non-empty) behaves as a FIFO: every pulled element is the oldest not yet
// pulled, nothing is pulled twice, nothing invented.
func VerifH_C20_step() {
	n0 := verifChoice("len0", 4)
	q, model := verifMkQueue(n0)
	K := verifParam("K", 4)
	for k := 0; k < K; k++ {
		if verifChoice("op", 2) == 0 {
			s := &segmentData{}
			q.push(s)
			model = append(model, s)
		} else {
			if len(model) == 0 {
				continue
			}
			got, ok := q.pull(context.Background())
			verifAssert("C20", "pull-ok", ok)
			verifAssert("C20", "fifo-order", got == model[0])
			model = model[1:]
		}
		verifAssert("C20", "len-matches-model", len(q.queue) == len(model))
		verifAssert("C20", "lock-free-after-op", !verifHeld(&q.mutex))
	}
	verifReach("end")
}

// VerifH_C20_producer: the throttled downloader (waitUntilSizeIsBelow(n)) runs as a thread;
// the consumer performs E complete pulls as a second thread; the scheduler may preempt at
// every synchronisation point (symbolic choice). When everything is quiescent, a producer
// that is still blocked although the backlog is <= n has missed a wake-up.
func VerifH_C20_producer() {
	n0 := 1 + verifChoice("len0", 3) // 1..3 queued
	n := verifChoice("n", 2)         // threshold 0..1
	E := verifChoice("pulls", 3)     // 0..2 pulls by the consumer
	q, _ := verifMkQueue(n0)
	ctx := context.Background()
	returned := false
	go func() {
		ok := q.waitUntilSizeIsBelow(ctx, n)
		verifAssert("C20", "wait-returns-true-without-cancel", ok)
		returned = true
	}()
	go func() {
		for i := 0; i < E && i < n0; i++ {
			q.pull(ctx)
		}
	}()
	verifQuiesce()
	if !returned {
		verifReach("producer-still-blocked")
		verifAssert("C20", "producer-blocked-implies-backlog-above-n", len(q.queue) > n)
	} else {
		verifReach("producer-returned")
		verifAssert("C20", "lock-free-after-wait", !verifHeld(&q.mutex))
	}
}

// VerifH_C20_consumer: a processor blocked in pull must proceed as soon as a segment is queued.
func VerifH_C20_consumer() {
	n0 := verifChoice("len0", 2) // 0..1 queued
	E := verifChoice("pushes", 3)
	q, _ := verifMkQueue(n0)
	ctx := context.Background()
	returned := false
	go func() {
		s, ok := q.pull(ctx)
		verifAssert("C20", "pull-ok", ok && s != nil)
		returned = true
	}()
	go func() {
		for i := 0; i < E; i++ {
			q.push(&segmentData{})
		}
	}()
	verifQuiesce()
	if !returned {
		verifReach("consumer-still-blocked")
		verifAssert("C20", "consumer-blocked-implies-empty-and-nothing-pushed", len(q.queue) == 0 && n0 == 0 && E == 0)
	} else {
		verifReach("consumer-returned")
	}
}

// VerifH_C20_cancel: both waits return promptly (false) on cancellation, whatever the state.
func VerifH_C20_cancel() {
	n0 := verifChoice("len0", 3)
	q, _ := verifMkQueue(n0)
	ctx, cancel := context.WithCancel(context.Background())
	role := verifChoice("role", 2)
	done := false
	go func() {
		if role == 0 {
			q.waitUntilSizeIsBelow(ctx, 0)
		} else {
			for {
				_, ok := q.pull(ctx)
				if !ok {
					break
				}
			}
		}
		done = true
	}()
	verifQuiesce()
	cancel()
	verifQuiesce()
	verifAssert("C20", "returns-after-cancel", done)
	verifAssert("C20", "lock-free-after-cancel", !verifHeld(&q.mutex))
	verifReach("end")
}
