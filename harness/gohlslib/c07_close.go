//go:build verif

package gohlslib

// C07 — Close unblocks every request and releases all storage.

import (
	"sync/atomic"
	"time"
)

type vWaiter struct {
	kind    int
	uri     string
	resp    *verifRW
	done    atomic.Bool
	blocked bool // was parked inside the muxer when Close started
}

func (w *vWaiter) start(m *Muxer) {
	go func() {
		w.resp = verifGet(m, w.uri)
		if w.resp.code == 0 {
			// net/http: a handler that returns without calling WriteHeader has answered 200 OK
			w.resp.code = 200
		}
		w.done.Store(true)
	}()
}

// VerifH_C07_close: P writes (P symbolic, including 0), up to two pending requests of symbolic
// kinds, then Close with symbolic preemption at its synchronisation points; afterwards every
// request has completed, nothing holds the muxer lock, later requests return, no file is left.
func VerifH_C07_close() {
	verifPartLog, verifInitLog, verifMediaLog, verifMultiLog, verifTSLog = nil, nil, nil, nil, nil
	if verifSymbolic() {
		verifFSReset()
	}
	variant := MuxerVariant(verifParam("VARIANT", 3))
	tr := verifVideoTrack()
	tracks := []*Track{tr}
	withAudio := verifParam("AUDIO", 0) == 1 && variant != MuxerVariantMPEGTS
	if withAudio {
		// a second stream (audio rendition) that receives no data: requests for its playlist pend until Close
		tracks = append(tracks, verifAudioTrack(""))
	}
	segCount := 3
	if variant == MuxerVariantLowLatency {
		segCount = 7
	}
	m := &Muxer{
		Variant:            variant,
		SegmentCount:       segCount,
		SegmentMinDuration: time.Duration(verifParam("SEGMIN_MS", 1000)) * time.Millisecond,
		PartMinDuration:    200 * time.Millisecond,
		Tracks:             tracks,
		Directory:          verifDirectory(),
		OnEncodeError:      func(error) {},
	}
	err := m.Start()
	verifAssert("*", "start-accepts-configuration", err == nil)
	wr := &vWriter{m: m, tr: tr}
	K := verifParam("K", 3)
	pre := verifChoice("prewrites", K+1)
	for i := 0; i < pre; i++ {
		wr.write()
	}
	sid := "video1"
	if variant == MuxerVariantMPEGTS {
		sid = "main"
	}
	st := verifLLState(m, sid)
	var ws []*vWaiter
	nw := 1 + verifChoice("nwaiters", 2)
	for i := 0; i < nw; i++ {
		nk := 4
		if withAudio {
			nk = 6
		}
		w := &vWaiter{kind: verifChoice("wkind", nk)}
		switch w.kind {
		case 4:
			w.uri = "audio2_stream.m3u8"
		case 5:
			if variant != MuxerVariantLowLatency {
				continue
			}
			w.uri = "audio2_stream.m3u8?_HLS_msn=8"
		case 0:
			w.uri = "index.m3u8"
		case 1:
			w.uri = sid + "_stream.m3u8"
		case 2:
			if st == nil || variant != MuxerVariantLowLatency {
				continue
			}
			w.uri = sid + "_stream.m3u8?_HLS_msn=" + itoaSmall(st.open+1)
		case 3:
			if st == nil || st.pl.PreloadHint == nil {
				continue
			}
			w.uri = st.pl.PreloadHint.URI
		}
		ws = append(ws, w)
		w.start(m)
	}
	verifQuiesce()
	for _, w := range ws {
		w.blocked = !w.done.Load()
		if w.blocked {
			verifReach("pending-request")
		}
	}
	if !verifSymbolic() {
		// native replay: let the other goroutines run at every scheduling point of Close
		verifHookFn = func(p string) { time.Sleep(30 * time.Millisecond) }
		defer func() { verifHookFn = nil }()
	}
	m.Close()
	verifQuiesce()
	verifReach("closed")
	for _, w := range ws {
		verifAssert("C07", "pending-request-completes-after-close", w.done.Load())
		if w.done.Load() && w.blocked {
			verifAssert("C07", "pending-request-gets-non-200", w.resp.code != 200)
		}
	}
	verifAssert("C07", "muxer-lock-free-after-close", !verifHeld(&m.mutex))
	// requests issued later return promptly too
	late := []*vWaiter{{uri: "index.m3u8"}, {uri: sid + "_stream.m3u8"}}
	if st != nil && st.pl.PreloadHint != nil {
		late = append(late, &vWaiter{uri: st.pl.PreloadHint.URI})
	}
	if variant == MuxerVariantLowLatency {
		late = append(late, &vWaiter{uri: sid + "_stream.m3u8?_HLS_msn=9&_HLS_part=0"})
	}
	if withAudio {
		late = append(late, &vWaiter{uri: "audio2_stream.m3u8"})
	}
	for _, w := range late {
		w.start(m)
	}
	verifQuiesce()
	for _, w := range late {
		verifAssert("C07", "later-request-returns", w.done.Load())
	}
	verifAssert("C07", "muxer-lock-free-after-later-requests", !verifHeld(&m.mutex))
	verifAssert("C07", "directory-empty-after-close", verifLiveFiles() == 0)
	verifReach("end")
}
