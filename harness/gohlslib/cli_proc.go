//go:build verif

package gohlslib

// Client stream-processing harnesses (C10, C13; reused by C12): the real
// clientStreamProcessorFMP4 / clientTrackProcessorFMP4 / clientTrack / clientTimeConvFMP4 /
// clientRoutinePool run as threads of the engine on segments whose parsed form is built by the
// harness with symbolic fields (symbolically fmp4 Marshal/Unmarshal are an identity on the
// value; natively the real serialisation round trip runs).

import (
	"bytes"
	"context"
	"time"

	"github.com/bluenviron/mediacommon/v2/pkg/codecs/mpeg4audio"
	"github.com/bluenviron/mediacommon/v2/pkg/formats/fmp4"
	"github.com/bluenviron/mediacommon/v2/pkg/formats/fmp4/seekablebuffer"
)

//verif:stub time.Since verifStub_timeSince
//verif:stub time.After verifStub_timeAfter
//verif:stub time.Now verifStub_timeNow
//verif:stub (github.com/bluenviron/mediacommon/v2/pkg/formats/fmp4.PartSample).GetH264 verifStub_GetH264

// by default playback never has to be paced (a large elapsed time); the back-pressure harness sets
// verifElapsedZero so that the track processor goes to sleep on a timer that never fires
var verifElapsedZero bool

func verifStub_timeSince(t time.Time) time.Duration {
	if verifElapsedZero {
		return 0
	}
	return 1 << 62
}
func verifStub_timeNow() time.Time                  { return time.Date(2024, 1, 1, 0, 0, 0, 0, time.UTC) }
func verifStub_timeAfter(d time.Duration) <-chan time.Time {
	if verifElapsedZero {
		return make(chan time.Time) // never fires within the run
	}
	ch := make(chan time.Time, 1)
	ch <- time.Time{}
	return ch
}
func verifStub_GetH264(ps fmp4.PartSample) ([][]byte, error) { return [][]byte{ps.Payload}, nil }

type vDelivered struct {
	track    int
	pts, dts int64
	data     [][]byte
	ntp      *time.Time
}

type vSD struct {
	nativePacing bool // native replay of the back-pressure harness: samples are paced against the real clock
	tracks    []*Track
	ctracks   []*clientTrack
	delivered []*vDelivered
	ended     bool
	onUnit    func(n int) // called before the n-th unit is handed to the user
}

func (s *vSD) setTracks(ctx context.Context, tracks []*Track) ([]*clientTrack, bool) {
	s.tracks = tracks
	for i, t := range tracks {
		i := i
		ct := &clientTrack{track: t}
		if s.nativePacing {
			ct.startRTC = time.Now()
		}
		ct.onData = func(pts int64, dts int64, data [][]byte) {
			if s.onUnit != nil {
				s.onUnit(len(s.delivered)) // a slow consumer: may block
			}
			s.delivered = append(s.delivered, &vDelivered{track: i, pts: pts, dts: dts, data: data, ntp: ct.lastAbsoluteTime})
		}
		s.ctracks = append(s.ctracks, ct)
	}
	return s.ctracks, true
}

func (s *vSD) setEnded() { s.ended = true }

type vClientStub struct {
	tc    clientTimeConv
	ready chan struct{}
}

func (c *vClientStub) setLeadingTimeConv(ts clientTimeConv) { c.tc = ts; close(c.ready) }
func (c *vClientStub) waitLeadingTimeConv(ctx context.Context) bool {
	select {
	case <-c.ready:
	case <-ctx.Done():
		return false
	}
	return true
}
func (c *vClientStub) getLeadingTimeConv() clientTimeConv { return c.tc }

type vProcResult struct {
	sd      *vSD
	err     error
	gotErr  bool
	closedOK bool
	endedAtQuiescence bool
}

func verifMarshalInit(in *fmp4.Init) []byte {
	var w seekablebuffer.Buffer
	if err := in.Marshal(&w); err != nil {
		verifStopPath() // the harness value is not encodable (only relevant natively)
	}
	return append([]byte(nil), w.Bytes()...)
}

func verifMarshalParts(parts []*fmp4.Part) []byte {
	var out []byte
	for _, p := range parts {
		var w seekablebuffer.Buffer
		if err := p.Marshal(&w); err != nil {
			verifStopPath()
		}
		out = append(out, w.Bytes()...)
	}
	return out
}

// verifRunFMP4 feeds the segments to a real fMP4 stream processor and runs everything to quiescence.
func verifRunFMP4(in *fmp4.Init, segs [][]*fmp4.Part, dts []*time.Time) *vProcResult {
	verifPartLog, verifInitLog = nil, nil
	rp := &clientRoutinePool{}
	rp.initialize()
	q := &clientSegmentQueue{}
	q.initialize()
	for i, parts := range segs {
		q.push(&segmentData{dateTime: dts[i], payload: verifMarshalParts(parts)})
	}
	q.push(nil)
	res := &vProcResult{sd: &vSD{}}
	cl := &vClientStub{ready: make(chan struct{})}
	proc := &clientStreamProcessorFMP4{ctx: rp.ctx, isLeading: true, initFile: verifMarshalInit(in), segmentQueue: q, rp: rp,
		streamDownloader: res.sd, client: cl}
	proc.initialize()
	rp.add(proc)
	verifQuiesce()
	select {
	case res.err = <-rp.errorChan():
		res.gotErr = true
		verifLog("routine error:", res.err.Error())
	default:
	}
	res.endedAtQuiescence = res.sd.ended
	rp.close() // must return: every routine honours cancellation
	res.closedOK = true
	return res
}

// verifVideoSample: the fMP4 sample payload of a one-unit access unit of the chosen codec and the unit a client must deliver
func verifVideoSample(vc int, tag byte) (payload []byte, unit []byte) {
	var ps fmp4.PartSample
	switch vc {
	case 1:
		unit = []byte{19 << 1, 1, tag}
		ps.FillH265(0, [][]byte{unit}) //nolint:errcheck
		return ps.Payload, unit
	case 2:
		unit = []byte{0x86, 0x00, tag}
		return unit, unit
	case 3:
		unit = []byte{0x32, 0x02, 0x01, tag}
		ps.FillAV1([][]byte{unit}) //nolint:errcheck
		return ps.Payload, unit
	}
	return verifH264Payload(tag), []byte{5, tag}
}

func verifH264Payload(tag byte) []byte {
	var ps fmp4.PartSample
	ps.FillH264(0, [][]byte{{5, tag}}) //nolint:errcheck
	return ps.Payload
}

// VerifH_C10_fmp4: a well-formed fMP4 stream (video + optional audio with its own timescale,
// 1..2 segments x 1..2 fragments x 1..2 samples, symbolic base times / durations / PTS offsets,
// with or without PROGRAM-DATE-TIME).
func VerifH_C10_fmp4() {
	rateV := 90000
	rateA := []int{48000, 44100}[verifChoice("audiorate", 2)]
	withAudio := verifBool("withaudio")
	// CODECS=1: the video codec is one of H265 / VP9 / AV1 and the audio codec MPEG-4 audio (default: H264 + Opus)
	vc := 0
	if verifParam("CODECS", 0) == 1 {
		vc = 1 + verifChoice("vcodec", 3)
	}
	var vcodec fmp4.Codec = &fmp4.CodecH264{SPS: verifTestSPS, PPS: []byte{8}}
	switch vc {
	case 1:
		vcodec = &fmp4.CodecH265{VPS: verifH265VPS, SPS: verifH265SPS, PPS: verifH265PPS(0)}
	case 2:
		vcodec = &fmp4.CodecVP9{Width: 1920, Height: 804, Profile: 0, BitDepth: 8, ChromaSubsampling: 1}
	case 3:
		vcodec = &fmp4.CodecAV1{SequenceHeader: verifAV1Seq}
	}
	in := &fmp4.Init{Tracks: []*fmp4.InitTrack{{ID: 1, TimeScale: uint32(rateV), Codec: vcodec}}}
	if withAudio {
		var acodec fmp4.Codec = &fmp4.CodecOpus{ChannelCount: 2}
		if vc != 0 {
			acodec = &fmp4.CodecMPEG4Audio{Config: mpeg4audio.Config{Type: 2, SampleRate: rateA, ChannelCount: 2}}
		}
		in.Tracks = append(in.Tracks, &fmp4.InitTrack{ID: 2, TimeScale: uint32(rateA), Codec: acodec})
	}
	nseg := 1 + verifChoice("nsegs", verifParam("MAXSEGS", 2))
	dtMode := verifParam("DATETIME", 0) // 0: no PROGRAM-DATE-TIME (time normalisation); 1: always (AbsoluteTime)
	maxBase := int64(1) << 40
	if dtMode == 1 {
		maxBase = int64(1) << uint(verifParam("DTBASEBITS", 32)) // smaller ranges keep the wall-clock arithmetic decidable
	}
	baseV := uint64(verifRangeI64("basev", 0, maxBase))
	baseA := uint64(verifRangeI64("basea", 0, maxBase))
	origin := int64(baseV) // first DTS of the leading track
	type exp struct {
		track    int
		dts, pts int64
		payload  []byte
		seg      int
		segFirst int64 // leading DTS (normalised) of the segment's first leading unit
	}
	var want []exp
	var segs [][]*fmp4.Part
	var dtl []*time.Time
	t0 := time.Date(2023, 5, 5, 5, 5, 5, 0, time.UTC)
	tag := byte(0)
	seq := uint32(0)
	for s := 0; s < nseg; s++ {
		var parts []*fmp4.Part
		nfrag := 1 + verifChoice("nfrags", verifParam("MAXFRAGS", 2))
		if f := verifParam("FIXFRAGS", 0); f != 0 {
			nfrag = f // a segment split into many fragments (chunked CMAF)
		}
		segFirst := int64(baseV) - origin
		for f := 0; f < nfrag; f++ {
			p := &fmp4.Part{SequenceNumber: seq}
			seq++
			vt := &fmp4.PartTrack{ID: 1, BaseTime: baseV}
			ns := 1 + verifChoice("nsamples", verifParam("MAXSAMPLES", 2))
			// DUPTRAFS=n: the fragment's n video samples travel in n track fragments (traf) of the same track inside
			// one moof, which ISO BMFF allows
			dup := verifParam("DUPTRAFS", 0)
			if dup > 0 {
				ns = dup
			}
			cur := int64(baseV)
			for k := 0; k < ns; k++ {
				dur := uint32(verifRangeI64("vdur", 0, int64(1)<<uint(verifParam("VDURBITS", 20))))
				offMax := int64(1) << uint(verifParam("PTSOFFBITS", 16))
				if verifParam("PTSOFFBITS", 16) == 0 {
					offMax = 0
				}
				off := int32(verifRangeI64("vptsoff", -offMax, offMax))
				pl, unit := verifVideoSample(vc, tag)
				vt.Samples = append(vt.Samples, &fmp4.PartSample{Duration: dur, PTSOffset: off, Payload: pl, IsNonSyncSample: k > 0})
				want = append(want, exp{track: 0, dts: cur - origin, pts: cur - origin + int64(off), payload: unit, seg: s, segFirst: segFirst})
				tag++
				cur += int64(dur)
				if dup > 0 && k < ns-1 {
					p.Tracks = append(p.Tracks, vt)
					vt = &fmp4.PartTrack{ID: 1, BaseTime: uint64(cur)}
				}
			}
			baseV = uint64(cur)
			p.Tracks = append(p.Tracks, vt)
			if withAudio {
				at := &fmp4.PartTrack{ID: 2, BaseTime: baseA}
				adur := uint32(verifRangeI64("adur", 0, int64(1)<<uint(verifParam("ADURBITS", 16))))
				at.Samples = append(at.Samples, &fmp4.PartSample{Duration: adur, Payload: []byte{0xA0, tag}})
				o := multiplyAndDivide(origin, int64(rateA), int64(rateV))
				want = append(want, exp{track: 1, dts: int64(baseA) - o, pts: int64(baseA) - o, payload: []byte{0xA0, tag}, seg: s, segFirst: segFirst})
				tag++
				baseA += uint64(adur)
				p.Tracks = append(p.Tracks, at)
			}
			parts = append(parts, p)
		}
		segs = append(segs, parts)
		if dtMode == 1 {
			t := t0.Add(time.Duration(s) * 10 * time.Second)
			dtl = append(dtl, &t)
		} else {
			dtl = append(dtl, nil)
		}
	}
	res := verifRunFMP4(in, segs, dtl)
	verifReach("ran")
	verifAssert("C10", "no-error-on-well-formed-stream", !res.gotErr)
	verifAssert("C10", "end-of-stream-signalled", res.sd.ended)
	verifAssert("C10", "reports-exactly-the-stream-tracks", len(res.sd.tracks) == len(in.Tracks))
	if len(res.sd.tracks) == len(in.Tracks) {
		verifAssert("C10", "track-clock-rates", res.sd.tracks[0].ClockRate == rateV && (!withAudio || res.sd.tracks[1].ClockRate == rateA))
	}
	// delivered = exactly the units with pts >= 0, per track in order, with normalised times
	for ti := 0; ti < len(in.Tracks); ti++ {
		var got []*vDelivered
		for _, d := range res.sd.delivered {
			if d.track == ti {
				got = append(got, d)
			}
		}
		gi := 0
		for _, e := range want {
			if e.track != ti {
				continue
			}
			if e.pts < 0 {
				continue // precedes the origin: dropped, never delivered with negative time
			}
			if gi >= len(got) {
				verifFail("C10", "unit-delivered")
				continue
			}
			g := got[gi]
			gi++
			verifAssert("C10", "unit-times-normalised", g.dts == e.dts && g.pts == e.pts)
			verifAssert("C10", "unit-bytes", len(g.data) == 1 && bytes.Equal(g.data[0], e.payload))
			rate := rateV
			if ti == 1 {
				rate = rateA
			}
			if dtl[e.seg] != nil {
				// AbsoluteTime = PROGRAM-DATE-TIME of the unit's segment + offset from that segment's first leading unit
				wantAbs := dtl[e.seg].Add(timestampToDuration(e.dts, rate) - timestampToDuration(e.segFirst, rateV))
				// timestamps are integers in the track's clock: the client converts the segment's anchor into that clock
				// (truncating), so agreement is required up to one tick of the track's clock (+2 us of ns rounding)
				tick := time.Second/time.Duration(rate) + 2*time.Microsecond
				verifAssert("C10", "absolute-time", g.ntp != nil && verifAbsDur(g.ntp.Sub(wantAbs)) <= tick)
			}
		}
		verifAssert("C10", "nothing-invented-or-negative", gi == len(got))
	}
	for _, d := range res.sd.delivered {
		verifAssert("C10", "no-negative-pts-delivered", d.pts >= 0)
	}
	verifAssert("C12", "no-routine-left-after-close", verifLiveThreads() == 0)
}

// all codec kinds mediacommon can put into an fMP4 init (supported and unsupported by the client)
func verifAnyCodec(name string) fmp4.Codec {
	switch verifChoice(name, 8) {
	case 0:
		return &fmp4.CodecH264{SPS: verifTestSPS, PPS: []byte{8}}
	case 1:
		return &fmp4.CodecMPEG4Audio{}
	case 2:
		return &fmp4.CodecOpus{ChannelCount: 2}
	case 3:
		return &fmp4.CodecMPEG1Audio{SampleRate: 48000, ChannelCount: 2}
	case 4:
		return &fmp4.CodecAC3{SampleRate: 48000, ChannelCount: 2}
	case 5:
		return &fmp4.CodecLPCM{BitDepth: 16, SampleRate: 48000, ChannelCount: 2}
	case 6:
		return &fmp4.CodecMJPEG{Width: 640, Height: 480}
	}
	return &fmp4.CodecMPEG4Video{}
}

// VerifH_C13_fmp4: well-formed-but-unexpected content: any codec, arbitrary track ids (duplicate,
// unknown), time scale 0, empty fragments, no leading-track data, huge values, absurd track counts.
// Assertion: no panic, no deadlock, Close honoured; the stream is skipped or ends with an error.
func VerifH_C13_fmp4() {
	in := &fmp4.Init{}
	h264 := func() fmp4.Codec { return &fmp4.CodecH264{SPS: verifTestSPS, PPS: []byte{8}} }
	// absurd values are taken from a concrete table (symbolic 64-bit wrap-around arithmetic does not
	// finish in the solver); the ordinary range stays symbolic
	absurd := verifBool("absurdvalues")
	base := func() uint64 {
		if absurd {
			return []uint64{18446744073709551615, 9223372036854775808, 1 << 62}[verifChoice("absbase", 3)]
		}
		return verifRangeU64("base", 0, 1<<40)
	}
	sample := func(k int) *fmp4.PartSample {
		if absurd {
			return &fmp4.PartSample{Duration: []uint32{4294967295, 0}[verifChoice("absdur", 2)],
				PTSOffset: []int32{-2147483648, 2147483647}[verifChoice("absoff", 2)], Payload: verifH264Payload(byte(k))}
		}
		return &fmp4.PartSample{Duration: uint32(verifRangeU64("dur", 0, 1<<24)),
			PTSOffset: int32(verifRangeI64("ptsoff", -(1 << 20), 1<<20)), Payload: verifH264Payload(byte(k))}
	}
	var parts []*fmp4.Part
	switch verifChoice("focus", 5) {
	case 0: // every codec kind, alone or next to a supported video track
		// the other track is a supported video track or a supported audio track, listed before or after the arbitrary one
		other := verifChoice("othertrack", 3) // 0 none, 1 H264, 2 Opus
		anyFirst := other != 0 && verifBool("anyfirst")
		if other != 0 && !anyFirst {
			c := h264()
			ts := uint32(90000)
			if other == 2 {
				c, ts = &fmp4.CodecOpus{ChannelCount: 2}, 48000
			}
			in.Tracks = append(in.Tracks, &fmp4.InitTrack{ID: 1, TimeScale: ts, Codec: c})
		}
		id := len(in.Tracks) + 1
		in.Tracks = append(in.Tracks, &fmp4.InitTrack{ID: id, TimeScale: 48000, Codec: verifAnyCodec("codec")})
		if anyFirst {
			c := h264()
			ts := uint32(90000)
			if other == 2 {
				c, ts = &fmp4.CodecOpus{ChannelCount: 2}, 48000
			}
			in.Tracks = append(in.Tracks, &fmp4.InitTrack{ID: 2, TimeScale: ts, Codec: c})
		}
		p := &fmp4.Part{}
		for _, t := range in.Tracks {
			p.Tracks = append(p.Tracks, &fmp4.PartTrack{ID: t.ID, BaseTime: base(), Samples: []*fmp4.PartSample{sample(t.ID)}})
		}
		parts = []*fmp4.Part{p}
	case 1: // time scales incl. 0, absurd base times and durations
		ts := uint32([]int64{90000, 0, 1, 4294967295}[verifChoice("timescale", 4)])
		in.Tracks = []*fmp4.InitTrack{{ID: 1, TimeScale: ts, Codec: h264()}}
		if verifBool("audio") {
			ts2 := uint32([]int64{48000, 0}[verifChoice("timescale2", 2)])
			in.Tracks = append(in.Tracks, &fmp4.InitTrack{ID: 2, TimeScale: ts2, Codec: &fmp4.CodecOpus{ChannelCount: 2}})
		}
		p := &fmp4.Part{}
		for _, t := range in.Tracks {
			p.Tracks = append(p.Tracks, &fmp4.PartTrack{ID: t.ID, BaseTime: base(), Samples: []*fmp4.PartSample{sample(1), sample(2)}})
		}
		parts = []*fmp4.Part{p}
	case 2: // track-id permutations: duplicates in the init, unknown / missing ids in the fragments
		in.Tracks = []*fmp4.InitTrack{{ID: 1 + verifChoice("id1", 3), TimeScale: 90000, Codec: h264()},
			{ID: 1 + verifChoice("id2", 3), TimeScale: 48000, Codec: &fmp4.CodecOpus{ChannelCount: 2}}}
		p := &fmp4.Part{}
		npt := verifChoice("nparttracks", 3)
		for t := 0; t < npt; t++ {
			p.Tracks = append(p.Tracks, &fmp4.PartTrack{ID: 1 + verifChoice("parttrackid", 4), BaseTime: base(), Samples: []*fmp4.PartSample{sample(t)}})
		}
		parts = []*fmp4.Part{p}
	case 3: // absurd track count
		n := 10 + verifChoice("extra", 2)
		for i := 0; i < n; i++ {
			in.Tracks = append(in.Tracks, &fmp4.InitTrack{ID: i + 1, TimeScale: 48000, Codec: &fmp4.CodecOpus{ChannelCount: 2}})
		}
		parts = []*fmp4.Part{{Tracks: []*fmp4.PartTrack{{ID: 1, BaseTime: 0, Samples: []*fmp4.PartSample{sample(0)}}}}}
	case 4: // empty fragments / fragments without samples / no fragment at all
		in.Tracks = []*fmp4.InitTrack{{ID: 1, TimeScale: 90000, Codec: h264()}}
		nf := verifChoice("nfrags", 3)
		for f := 0; f < nf; f++ {
			p := &fmp4.Part{SequenceNumber: uint32(f)}
			if verifBool("hastrack") {
				pt := &fmp4.PartTrack{ID: 1, BaseTime: base()}
				if verifBool("hassample") {
					pt.Samples = append(pt.Samples, sample(f))
				}
				p.Tracks = append(p.Tracks, pt)
			}
			parts = append(parts, p)
		}
	}
	var dt *time.Time
	if verifBool("datetime") {
		t := time.Date(2023, 5, 5, 5, 5, 5, 0, time.UTC)
		dt = &t
	}
	res := verifRunFMP4(in, [][]*fmp4.Part{parts}, []*time.Time{dt})
	verifReach("ran")
	// the end-of-stream marker is queued right behind the segment: a client that neither failed nor
	// reached it is wedged
	verifAssert("C13", "skips-the-piece-or-ends-with-an-error", res.gotErr || res.endedAtQuiescence)
	verifAssert("C13", "close-honoured", res.closedOK)
	verifAssert("C13", "no-routine-left-after-close", verifLiveThreads() == 0)
	for _, d := range res.sd.delivered {
		verifAssert("C13", "no-negative-pts-delivered", d.pts >= 0)
	}
}


// VerifH_C20_pipeline (C20, bounded look-ahead): three fMP4 segments of FRAGS fragments each are queued; the consumer
// blocks while it is handed the last unit of the first segment. The stream processor must not take the next segment
// out of the queue before every unit of the current one has been delivered (that pull is what lets the throttled
// downloader fetch another segment): the queue still holds the two later segments while the consumer is blocked.
func VerifH_C20_pipeline() {
	verifPartLog, verifInitLog = nil, nil
	frags := verifParam("FRAGS", 3)
	in := &fmp4.Init{Tracks: []*fmp4.InitTrack{{ID: 1, TimeScale: 90000, Codec: &fmp4.CodecH264{SPS: verifTestSPS, PPS: []byte{8}}}}}
	rp := &clientRoutinePool{}
	rp.initialize()
	q := &clientSegmentQueue{}
	q.initialize()
	tag := byte(0)
	cur := uint64(verifRangeI64("base", 0, 1<<30))
	for sgi := 0; sgi < 3; sgi++ {
		var parts []*fmp4.Part
		for f := 0; f < frags; f++ {
			dur := uint32(verifRangeI64("dur", 0, 1<<10))
			parts = append(parts, &fmp4.Part{SequenceNumber: uint32(tag), Tracks: []*fmp4.PartTrack{{ID: 1, BaseTime: cur,
				Samples: []*fmp4.PartSample{{Duration: dur, Payload: verifH264Payload(tag)}}}}})
			cur += uint64(dur)
			tag++
		}
		q.push(&segmentData{payload: verifMarshalParts(parts)})
	}
	sd := &vSD{}
	gate := make(chan struct{})
	sd.onUnit = func(n int) {
		if n == frags-1 {
			<-gate // the last unit of the first segment
		}
	}
	cl := &vClientStub{ready: make(chan struct{})}
	proc := &clientStreamProcessorFMP4{ctx: rp.ctx, isLeading: true, initFile: verifMarshalInit(in), segmentQueue: q, rp: rp,
		streamDownloader: sd, client: cl}
	proc.initialize()
	rp.add(proc)
	verifQuiesce()
	verifReach("consumer-blocked")
	verifAssert("C20", "units-before-the-blocked-one-delivered", len(sd.delivered) == frags-1)
	q.mutex.Lock()
	waiting := len(q.queue)
	q.mutex.Unlock()
	verifAssert("C20", "next-segment-not-taken-while-current-one-is-being-delivered", waiting == 2)
	close(gate)
	verifQuiesce()
	verifAssert("C20", "every-unit-delivered-once-in-order", len(sd.delivered) == 3*frags)
	rp.close()
	verifReach("end")
}
