#!/usr/bin/env python3
"""Generates /verif/MANIFEST.json from the registry (run after changing checks/registry.py)."""
import json, os, subprocess, sys
VERIF = os.path.dirname(os.path.dirname(os.path.abspath(__file__)))
sys.path.insert(0, os.path.join(VERIF, "checks"))
from registry import CHECKS
from manifest_text import TEXT, NOT_APPLICABLE

hooks = subprocess.check_output(["git", "-C", "/repo", "log", "--format=%h %s"]).decode().splitlines()
hook_commits = [l.split()[0] for l in hooks if "verif hooks" in l]
checks = []
for pid in sorted(CHECKS):
    if pid in NOT_APPLICABLE:
        continue
    spec = CHECKS[pid]
    t = TEXT[pid]
    checks.append({
        "property_id": pid,
        "quick_cmd": "bin/vcheck %s --tier quick" % pid,
        "thorough_cmd": "bin/vcheck %s --tier thorough" % pid,
        "evidence_file": "/verif/evidence/%s.json" % pid,
        "replay_cmd_template": "bin/vcheck replay {path}",
        "engine": "symgo",
        "level_claimed": {"category": "model_checking", "text": t["level"], "design_ref": t.get("ref", "DESIGN.md sections 5 (%s: plan), 12.3-12.4 (as built) and 13 (seeded changes)" % pid)},
        "level_note": t["note"],
        "technique": "bounded symbolic execution of the real go/ssa code, every branch / panic condition / assertion discharged by an SMT solver (z3 5.1; cvc5 for the floating-point lemmas): " + spec.get("technique", ""),
    })
m = {
    "version": 1,
    "setup_cmd": "cd /verif/symgo && GOFLAGS=-mod=mod GOPROXY=off GOSUMDB=off GOTOOLCHAIN=local go build -o ../bin/symgo .",
    "hooks": {"guard": "verif", "enable": "go build/test -tags verif (harness files are injected with -overlay; symgo loads /repo with tags verif,verifsym)",
              "baseline_off_cmd": "cd /repo && GOFLAGS=-mod=mod go test -json -vet=off -count=1 -timeout 25m ./...",
              "source_commits": hook_commits, "add_only": True},
    "engines": [{"name": "symgo", "path": "/verif/symgo", "serves_properties": [c["property_id"] for c in checks],
                 "kind_free_text": "symbolic executor for Go written against go/ssa (x/tools v0.29.0): concrete heap shape, symbolic scalars/bytes, re-execution DFS over decision vectors, "
                                   "green threads with symbolic preemption, persistent z3-new / cvc5 processes, native replay of every counterexample through go test -overlay"}],
    "checks": checks,
    "not_applicable": [{"property_id": k, "reason": v} for k, v in sorted(NOT_APPLICABLE.items())],
    "notes": "bin/vcheck <id> --tier quick|thorough drives symgo over the harness set of the property (checks/registry.py), replays counterexamples natively, matches known_findings.json, writes evidence/<id>.json. "
             "Exit 0 = held on everything explored (inconclusive parts are counted in evidence), 1 = replay-confirmed violation not listed as known, 2 = a harness could not be run.",
}
json.dump(m, open(os.path.join(VERIF, "MANIFEST.json"), "w"), indent=1)
print("wrote MANIFEST.json with", len(checks), "checks")

# plain-text rendering of known_findings.json (the JSON file is what bin/vcheck reads; never written at run time)
_kf = json.load(open(os.path.join(os.path.dirname(os.path.dirname(os.path.abspath(__file__))), "known_findings.json")))
with open(os.path.join(os.path.dirname(os.path.dirname(os.path.abspath(__file__))), "known_findings.txt"), "w") as _f:
    _f.write("# generated from known_findings.json by checks/gen_manifest.py\n")
    for _k in _kf:
        if _k.get("state") == "fixed":
            _f.write("fixed: property=%s %s %s [%s/%s]\n" % (_k["property"], _k["commit"], _k["what"], _k["signature"].get("harness"), _k["signature"].get("assert")))
        else:
            _f.write("known: property=%s %s [%s/%s]\n" % (_k["property"], _k["what"], _k["signature"].get("harness"), _k["signature"].get("assert")))
