# Registry of checks: property -> harness runs (symgo invocations) with their bounds per tier.

G = "gohlslib/"

CHECKS = {
    "C20": {
        "technique": "FIFO step harness + interference harnesses with symbolic preemption at synchronisation points",
        "bounds": {
            "quick": {"queue length": "0..3", "operations": "K=5 push/pull", "preemptions": 5, "consumer pulls / producer pushes": "0..2"},
            "thorough": {"queue length": "0..3", "operations": "K=7", "preemptions": 7, "consumer pulls / producer pushes": "0..2"},
        },
        "assumptions": [
            "preemption only at synchronisation points (lock, unlock, channel operation, select, close) — sound for data-race-free code",
            "context package interpreted from source; sync.Mutex / channels / select modelled by the engine",
            "one producer and one consumer (the way client_stream_downloader / processors use the queue)",
        ],
        "outside": ["end-to-end server-speed runs", "more than the stated number of preemptions"],
        "runs": [
            {"name": "step.queue", "files": [G + "c20_queue.go"], "fn": "VerifH_C20_step", "params_quick": {"K": 5}, "params_thorough": {"K": 7}, "reach": ["end"]},
            {"name": "conc.queue.producer", "files": [G + "c20_queue.go", G + "c20_queue_native.go"], "fn": "VerifH_C20_producer",
             "preempt_quick": 5, "preempt_thorough": 7, "reach": ["producer-returned", "producer-still-blocked"]},
            {"name": "conc.queue.consumer", "files": [G + "c20_queue.go", G + "c20_queue_native.go"], "fn": "VerifH_C20_consumer",
             "preempt_quick": 5, "preempt_thorough": 7, "reach": ["consumer-returned", "consumer-still-blocked"]},
            {"name": "conc.queue.cancel", "files": [G + "c20_queue.go", G + "c20_queue_native.go"], "fn": "VerifH_C20_cancel",
             "preempt_quick": 5, "preempt_thorough": 7, "reach": ["end"]},
        ],
    },
}

MUX00 = [G + "mux_run.go", G + "mux_stubs.go", "rt/fs_model.go"]
MUX0 = MUX00 + [G + "mux_stub_floats.go"]
MUX = MUX0 + [G + "mux_stub_findcompat.go"]
MUX_STUBS = [
    "mediacommon boundary stubbed (trusted: its Marshal/Unmarshal are mutually inverse): fmp4.Part/Init.Marshal+Unmarshal, PartSample.FillH264, "
    "h264.DTSExtractor (dts = pts - harness offset), mpegts.Writer.*, h264.SPS parser",
    "playlist text layer bypassed in the bounded runs (struct captured at Marshal, handed back at Unmarshal); the text layer is C14/C15",
    "targetDuration / partTargetDuration replaced by integer summaries proven equal to the real float code by lemma.targetDuration / lemma.partTarget (C03) on the range asserted at each use",
    "findCompatiblePartDuration returns an arbitrary value in [PartMinDuration, 5 s] in Low-Latency runs (its real result is C19's subject)",
    "one writer goroutine, requests issued between writes (concurrency is C06-C08)",
]


def mux_runs():
    def run(name, variant, tracks, kq, kt, reach, **extra):
        r = {"name": name, "files": MUX, "fn": "VerifH_mux_run", "workers": 16,
             "params": {"VARIANT": variant, "TRACKS": tracks}, "params_quick": {"K": kq}, "params_thorough": {"K": kt},
             "reach": reach, "budget_quick": 900, "budget_thorough": 7200}
        r["params"].update(extra)
        return r
    std = ["end", "cut", "observe", "decode-segment"]
    return [
        run("run.mux.fmp4.video", 2, 0, 4, 5, std + ["init-after-change"], VKINDS=5),
        run("run.mux.ts.video", 1, 0, 5, 6, std, VKINDS=4),
        run("run.mux.ll.video", 3, 0, 3, 4, std, VKINDS=3),
        run("run.mux.fmp4.video+audio", 2, 1, 5, 5, std, VKINDS=3),
        # window sliding several times, Directory storage, Close at the end: key frames only
        run("run.mux.ts.slide.disk", 1, 0, 6, 8, std, VKINDS=1, DISK=1, CLOSE_AT_END=1),
        run("run.mux.fmp4.slide.disk", 2, 0, 7, 10, std, VKINDS=1, DISK=1, CLOSE_AT_END=1),
    ]


MUX_BOUNDS = {
    "quick": {"writes per run": "K=4 (fMP4, MPEG-TS, fMP4 video+audio), K=3 (Low-Latency)", "first DTS": "[-10 s, 2^33] ticks", "DTS delta": "[0, 2^21] ticks video, [0, 2^20] audio",
              "SegmentMinDuration": "symbolic in [1 ms, 4 s]", "access unit kinds": "IDR / non-IDR / changed PPS on IDR or non-IDR / changed SPS (H264, H265); key / non-key / key with changed frame size or sequence header (VP9, AV1)", "SegmentCount": "3 (7 in Low-Latency)",
              "storage": "RAM; Directory storage (in-harness file system) in the *.disk runs"},
    "thorough": {"writes per run": "K=5 (fMP4), K=6 (MPEG-TS), K=4 (Low-Latency), K=5 (video+audio), K=8/10 (slide runs)", "first DTS": "[-10 s, 2^33] ticks", "DTS delta": "[0, 2^21] / [0, 2^20] ticks",
                 "SegmentMinDuration": "symbolic in [1 ms, 4 s]", "access unit kinds": "IDR / non-IDR / IDR with changed PPS", "SegmentCount": "3 (7 in Low-Latency)", "storage": "RAM"},
}

MUX_OUTSIDE = ["byte-level MP4 / MPEG-TS encoding (mediacommon)", "histories longer than K writes (covered by the step harnesses where registered)",
               "H265 / VP9 / AV1 outside the single-video fMP4 runs registered for C01/C02 (fixed valid parameter-set vectors, two alternatives each)", "pts != dts beyond the one real reordered H264 sequence of the *.bframes runs"]

for pid, tech in [("C01", "ghost list of accepted units vs decoded fragments"), ("C02", "specification cut rule vs observed rotations; init contents"),
                  ("C03", "durations / targets / date-times of every served playlist vs ghost segments"),
                  ("C04", "relation between consecutive served playlists"), ("C05", "every listed URI fetched through the real handlers"),
                  ("C18", "window size, expired URIs, segment size limit")]:
    CHECKS[pid] = {"technique": tech, "bounds": MUX_BOUNDS, "assumptions": MUX_STUBS, "outside": MUX_OUTSIDE, "runs": mux_runs()}

C06F = [G + "c06_reload.go"] + MUX
CHECKS["C06"] = {
    "technique": "lemma on hasPart vs the published(M,P) predicate; request threads with symbolic _HLS_msn/_HLS_part text inside a real Low-Latency run, writer as interference",
    "bounds": {
        "quick": {"hasPart": "0..2 gaps, 0..3 complete segments x 1..2 parts, open 0..2 parts, first MSN < 2^62, M,P full uint64",
                  "reload": "K=3 writes, request after 2..3 writes, msn text 0..2 chars and part text 0..1 chars over digits and one unparsable character",
                  "hint": "K=4 writes", "delta": "K=3 writes, _HLS_skip in {YES,v2}, with/without ordinary query parameters"},
        "thorough": {"hasPart": "same", "reload": "K=4", "hint": "K=5", "delta": "K=4"},
    },
    "assumptions": MUX_STUBS + ["cooperative scheduling: the request thread runs until it blocks, the writer's subsequent real writes are the interference; "
                                "liveness is checked as safety at quiescence (a request still parked although its part is published is a lost wake-up or a wrong predicate)",
                                "one pending request (waiters do not write shared state)"],
    "outside": ["wall-clock promptness", "more than one concurrent waiter", "MSN/part numbers above 99"],
    "runs": [
        {"name": "lemma.hasPart", "files": C06F, "fn": "VerifH_C06_hasPart", "reach": ["end"]},
        {"name": "conc.reload", "files": C06F, "fn": "VerifH_C06_reload", "workers": 16, "params_quick": {"K": 3}, "params_thorough": {"K": 4},
         "reach": ["answered", "blocked", "end"], "budget_quick": 900, "budget_thorough": 7200, "replay_timeout": 120},
        {"name": "conc.hint", "files": C06F, "fn": "VerifH_C06_hint", "workers": 16, "params_quick": {"K": 4}, "params_thorough": {"K": 5},
         "reach": ["hint-part-published", "end"], "budget_quick": 900, "budget_thorough": 7200},
        {"name": "step.delta", "files": C06F, "fn": "VerifH_C06_delta", "workers": 16, "params_quick": {"K": 3}, "params_thorough": {"K": 4},
         "reach": ["skipped-some", "end"], "budget_quick": 900, "budget_thorough": 7200},
    ],
}

C07F = [G + "c07_close.go", G + "c06_reload.go"] + MUX


def c07run(name, variant, disk, kq, kt):
    return {"name": name, "files": C07F, "fn": "VerifH_C07_close", "workers": 16, "params": {"VARIANT": variant, "DISK": disk},
            "params_quick": {"K": kq}, "params_thorough": {"K": kt}, "preempt_quick": 1, "preempt_thorough": 2,
            "reach": ["closed", "pending-request", "end"], "budget_quick": 900, "budget_thorough": 7200, "replay_timeout": 120}


CHECKS["C07"] = {
    "technique": "pending request threads + real Close with symbolic preemption at its synchronisation points; in-harness file system for Directory storage",
    "bounds": {"quick": {"writes before Close": "0..K, K=2 (LL), K=3 (fMP4, disk), K=2 (MPEG-TS, disk)", "pending requests": "1..2 of 4 kinds (6 with an audio rendition stream that never receives data)", "preemptions": 1},
               "thorough": {"writes before Close": "as quick", "pending requests": "as quick", "preemptions": 2}},
    "assumptions": MUX_STUBS + ["preemption only at synchronisation points", "os.Create/Open/Remove and *os.File methods replaced by an in-harness POSIX-like file system"],
    "outside": ["wall-clock promptness", "OS-level removal semantics", "more than two pending requests"],
    "runs": [c07run("conc.close.ll", 3, 0, 2, 2), c07run("conc.close.fmp4.disk", 2, 1, 3, 3), c07run("conc.close.ts.disk", 1, 1, 2, 2),
             dict(c07run("conc.close.ll.audio", 3, 0, 2, 2), params={"VARIANT": 3, "DISK": 0, "AUDIO": 1}, preempt_thorough=1),
             dict(c07run("conc.close.fmp4.audio", 2, 0, 2, 2), params={"VARIANT": 2, "DISK": 0, "AUDIO": 1}, preempt_thorough=1)] + [r for r in mux_runs() if "slide" in r["name"]],
}

S = "storage/"
CHECKS["C17"] = {
    "technique": "differential harness: RAM backend vs disk backend (on an in-harness file system) vs a byte-slice model under one symbolic operation sequence",
    "bounds": {"quick": {"parts": "0..2", "operations": "2 on the first part, 1 on later parts, from {Write(0..2 arbitrary bytes), Seek(off in [-2,4], start|current)}", "read buffer sizes": "1..3 (0 for the zero-length read)"},
               "thorough": {"parts": "0..1", "operations": "3 on the part, Write(0..3 bytes), Seek(off in [-4,8])", "read buffer sizes": "1..5 (the two-part space is the quick tier's)"}},
    "assumptions": ["os.Create/Open/Remove and *os.File.{WriteAt,Write,Read,Seek,Truncate,Close} replaced by an in-harness POSIX-like file system (sparse writes zero-filled, short reads at EOF, unlink keeps open handles)",
                    "one Writer() per part, parts written in allocation order (how every caller in the repository uses the package)",
                    "a trailing forward seek without a following write may or may not count as written zeros, but every observation of a backend must follow one reading and both backends the same one",
                    "seekablebuffer / bytes.Buffer / io.LimitedReader / io.OffsetWriter interpreted from source"],
    "outside": ["read buffers larger than 5 bytes", "real OS semantics (page cache, permissions)", "Seek relative to the end (not supported by the disk writer)"],
    "runs": [
        {"name": "run.storage.equiv", "dir": "pkg/storage", "files": [S + "c17_storage.go", "rt/fs_model.go"], "fn": "VerifH_C17_storage", "workers": 16,
         "params_quick": {"MAXPARTS": 2, "OPS": 2, "OPS2": 1, "MAXW": 2, "MAXBUF": 2}, "params_thorough": {"MAXPARTS": 1, "OPS": 3, "MAXW": 3, "MAXBUF": 4, "OFFNEG": 4, "OFFPOS": 8},
         "reach": ["end"], "budget_quick": 900, "budget_thorough": 7200},
    ],
}

P = "playlist/"


def c14run(name, fn):
    return {"name": name, "dir": "pkg/playlist", "files": [P + "c14_roundtrip.go", P + "c15_grammar.go"], "fn": fn, "workers": 16,
            "params_quick": {"MAXINT": 99999}, "params_thorough": {"MAXINT": 99999}, "reach": ["roundtrip-done"],
            "budget_quick": 900, "budget_thorough": 7200}


CHECKS["C14"] = {
    "technique": "symbolic field values (integers as symbolic decimal text, strings of arbitrary legal bytes, presence flags) through the real Marshal and Unmarshal; field-wise equality, fixpoint and syntactic variants asserted",
    "bounds": {"quick": {"integers": "[0, 99999]", "strings": "0..2 arbitrary ASCII bytes legal in their position (plus a fixed prefix)", "fields symbolic at once": "one tag group (4-8 groups per harness)",
                         "durations / date-times / frame rates": "enumerated boundary values, executed concretely (float formatting is not solver-decided)"},
               "thorough": {"integers": "same as quick (6-digit symbolic decimals already leave the header run inconclusive)", "strings": "same", "fields": "same"}},
    "assumptions": ["strconv / strings / time interpreted from source; strconv.Format{Int,Uint} of a symbolic integer modelled as symbolic decimal digits (fork on digit count)",
                    "map iteration in insertion order (attribute order independence is exercised by the CRLF/unknown-tag variant only)",
                    "local time zone = UTC"],
    "outside": ["non-ASCII text", "arbitrary float values (enumerated only)", "combinations of tag groups beyond those listed in the harness"],
    "runs": [c14run("run.pl.mediaHeader", "VerifH_C14_mediaHeader"), c14run("run.pl.segment", "VerifH_C14_segment"),
             c14run("run.pl.parts", "VerifH_C14_parts"), c14run("run.pl.multivariant", "VerifH_C14_multivariant")],
}

C15F = [P + "c15_decoder.go", P + "c15_grammar.go", P + "c14_roundtrip.go"]


def c15g(name, fn):
    return {"name": name, "dir": "pkg/playlist", "files": C15F, "fn": fn, "workers": 16, "params": {"VARIANTS": 0},
            "params_quick": {"MAXINT": 9999}, "params_thorough": {"MAXINT": 99999}, "reach": ["roundtrip-done"], "budget_quick": 900, "budget_thorough": 7200}


CHECKS["C15"] = {
    "technique": "arbitrary symbolic bytes after each tag in a valid frame through the real decoders (panic conditions and structural post-conditions as solver queries); "
                 "an independent strict RFC 8216 line grammar, symbolically executed over the real Marshal output for the C14 value space",
    "bounds": {"quick": {"decoder": "one tag (27 media / 9 multivariant prefixes, incl. attribute-list prefixes) + 6 arbitrary bytes, in two frame positions", "grammar": "C14 value space with integers < 10^4",
                         "request query": "{'', 't=', '_HLS_msn=1&'} + 3 arbitrary printable bytes through filterOutHLSParams (net/url from source); 5 arbitrary printable bytes through generateMultivariantPlaylist of a video+audio fMP4 muxer"},
               "thorough": {"decoder": "8 arbitrary bytes", "grammar": "integers < 10^5", "request query": "filterOutHLSParams as quick (4 bytes did not finish inside a 13 min probe on a loaded machine: not registered); multivariant 8 bytes"}},
    "assumptions": ["strconv.ParseFloat / time.Parse on symbolic text return a nondeterministic (representative value | error), incl. 0, NaN and +Inf for floats",
                    "segment titles ASCII (strings.TrimSpace's Unicode path not encoded)", "a MediaServerControl value sets at least one attribute",
                    "playlists served by a muxer are covered through the C14 value space (same Marshal code) and, natively, by the replay of the muxer harnesses"],
    "outside": ["request queries longer than the stated number of arbitrary bytes; bytes outside printable ASCII in a query (net/http does not deliver them)", "more than one arbitrary line per document", "coverage-guided fuzzing of whole documents (different technique)"],
    "runs": [
        {"name": "run.pl.decoder.media", "dir": "pkg/playlist", "files": C15F, "fn": "VerifH_C15_mediaDecoder", "workers": 16,
         "params_quick": {"L": 6}, "params_thorough": {"L": 8}, "reach": ["accepted", "rejected"], "budget_quick": 900, "budget_thorough": 7200},
        {"name": "run.pl.decoder.multi", "dir": "pkg/playlist", "files": C15F, "fn": "VerifH_C15_multiDecoder", "workers": 16,
         "params_quick": {"L": 6}, "params_thorough": {"L": 8}, "reach": ["accepted", "rejected"], "budget_quick": 900, "budget_thorough": 7200},
        c15g("run.pl.grammar.header", "VerifH_C14_mediaHeader"), c15g("run.pl.grammar.segment", "VerifH_C14_segment"),
        c15g("run.pl.grammar.parts", "VerifH_C14_parts"), c15g("run.pl.grammar.multivariant", "VerifH_C14_multivariant"),
    ],
}

CHECKS["C15"]["runs"].append({"name": "run.mux.query", "files": [G + "c15_query.go"] + MUX, "fn": "VerifH_C15_query", "workers": 16,
                              "params_quick": {"L": 3}, "params_thorough": {"L": 3}, "reach": ["filtered"], "budget_quick": 600, "budget_thorough": 3600})
CHECKS["C15"]["runs"].append({"name": "run.mux.query.multivariant", "files": [G + "c15_query.go", G + "c16_multivariant.go", G + "c06_reload.go"] + MUX, "fn": "VerifH_C15_mvquery", "workers": 16,
                              "params_quick": {"L": 5}, "params_thorough": {"L": 8}, "reach": ["generated"], "budget_quick": 600, "budget_thorough": 3600})
C16F = [G + "c16_multivariant.go", G + "c06_reload.go"] + MUX
CHECKS["C16"] = {
    "technique": "symbolic track lists through the real Start and generateMultivariantPlaylist; multivariant checks inside the bounded muxer runs; non-linear lemma on bandwidth()",
    "bounds": {"quick": {"layout": "1..3 tracks of {video, MPEG-4 audio, Opus} with the video codec H264 / H265 / VP9 / AV1 (one run each), name/language/default set or not, fMP4 and Low-Latency", "runs": "as C01 (K=4)", "bandwidth": "1..3 listed segments (+2 gaps), sizes in [1,2^30], durations in [0,2^36] ns"},
               "thorough": {"layout": "same", "runs": "as C01 thorough", "bandwidth": "1..4 segments"}},
    "assumptions": MUX_STUBS + ["RESOLUTION / FRAME-RATE compared against the stubbed SPS fields (1920x1080, 30 fps); natively against the real parser on the same SPS"],
    "outside": ["exact RFC 6381 strings and RESOLUTION values of H265 / VP9 (prefix and presence only); AV1: exact string for arbitrary profile / level / tier / bit depth / monochrome / subsampling / colour description (cp, tc, mc in 0..22) by lemma.codecs.av1, except the sRGB triple and the optional fields of headers without a colour description (pinned to 01.01.01.0 by TestMarshal)", "peak/mean equality for multi-stream muxers (the statement only claims it for single-stream ones)"],
    "runs": [
        {"name": "run.mv.layout", "files": C16F, "fn": "VerifH_C16_layout", "workers": 16, "reach": ["accepted", "rejected", "end"]},
        {"name": "run.mv.layout.mpegts", "files": C16F, "fn": "VerifH_C16_layout", "workers": 16, "params": {"TSLAYOUT": 1}, "reach": ["accepted", "rejected", "end"]},
        {"name": "run.mv.layout.h265", "files": C16F, "fn": "VerifH_C16_layout", "workers": 16, "params": {"VCODEC": 1, "H265SPS": 2}, "reach": ["accepted", "rejected", "end"]},
        {"name": "run.mv.layout.vp9", "files": C16F, "fn": "VerifH_C16_layout", "workers": 16, "params": {"VCODEC": 2}, "reach": ["accepted", "rejected", "end"]},
        {"name": "run.mv.layout.av1", "files": C16F, "fn": "VerifH_C16_layout", "workers": 16, "params": {"VCODEC": 3}, "reach": ["accepted", "rejected", "end"]},
        {"name": "lemma.codecs.av1", "files": [G + "c16_av1.go"] + C16F, "fn": "VerifH_C16_av1codecs", "workers": 16, "reach": ["marshalled", "end"]},
        {"name": "lemma.bandwidth", "files": C16F, "fn": "VerifH_C16_bandwidth", "workers": 8, "params_quick": {"N": 3}, "params_thorough": {"N": 4}, "qtimeout": 60000, "reach": ["computed"]},
    ] + mux_runs(),
}

C03L = [G + "c03_lemmas.go"]
CHECKS["C03"]["runs"] = [
    {"name": "lemma.ts2dur", "files": C03L, "fn": "VerifH_C03_ts2dur", "workers": 10, "reach": ["end"]},
    {"name": "lemma.round", "files": C03L, "fn": "VerifH_C03_roundLemma", "bv": True, "solver": "cvc5", "workers": 1, "qtimeout": 300000, "reach": ["end"], "native": False},
    {"name": "lemma.ceil", "files": C03L, "fn": "VerifH_C03_ceilLemma", "bv": True, "solver": "cvc5", "workers": 1, "qtimeout": 300000, "reach": ["end"], "native": False},
    {"name": "lemma.targetDuration.table", "files": C03L, "fn": "VerifH_C03_targetDuration", "workers": 1, "reach": ["end"]},
] + CHECKS["C03"]["runs"]
CHECKS["C03"]["bounds"] = {k: dict(v, **{"lemma.ts2dur": "10 clock rates, timestamps in [0,2^33] and [-10 s,0]", "lemma.round": "0 <= d < 2^17 s (bit-vector + IEEE-754 double, cvc5)",
                                       "lemma.ceil": "0 <= d <= 2^33 ns (bit-vector + IEEE-754 double, cvc5)"}) for k, v in MUX_BOUNDS.items()}
CHECKS["C03"]["assumptions"] = MUX_STUBS + ["lemma.round / lemma.ceil are stated over the stdlib expression time.Duration.Seconds() = float64(sec) + float64(nsec)/1e9 on pre-split operands "
                                            "(mixing the integer division with floating point in one query does not finish in any installed solver)"]

C19F = [G + "c19_parts.go", G + "c06_reload.go"] + MUX00  # real targetDuration / partTargetDuration (concrete frame durations)
CHECKS["C19"] = {
    "technique": "lemma on the real findCompatiblePartDuration with symbolic PartMinDuration per constant sample duration; real Low-Latency run with symbolic PartMinDuration",
    "bounds": {"quick": {"lemma.compat": "first 14 sample durations of the table (30/29.97/60/25/24/50 fps, AAC 48k/44.1k, Opus 10/20/40 ms, 120/100/90 fps), PartMinDuration symbolic in [50 ms, 2 s]",
                         "run": "K=8 frames at {30, 29.97, 60, 10} fps, key frame every 3..5 frames, PartMinDuration symbolic in [50, 400] ms, SegmentMinDuration 500 ms"},
               "thorough": {"lemma.compat": "all 37 sample durations (1..120 fps incl. 1001-based, AAC at 11 rates, Opus 2.5..60 ms)", "run": "K=14 frames"}},
    "assumptions": MUX_STUBS[:2] + ["constant sample duration (the statement's premise)", "video-led streams in the run; audio-only regularity is covered by the lemma's AAC/Opus entries"],
    "outside": ["sample durations outside the table", "segments longer than K frames"],
    "runs": [
        {"name": "lemma.compat", "files": C19F, "fn": "VerifH_C19_compat", "workers": 16, "params_quick": {"TABLE": 14}, "params_thorough": {"TABLE": 37}, "reach": ["computed"],
         "budget_quick": 900, "budget_thorough": 7200},
        {"name": "run.ll.parts", "files": C19F, "fn": "VerifH_C19_run", "workers": 16, "params_quick": {"K": 8}, "params_thorough": {"K": 14}, "reach": ["non-final-part", "end"],
         "budget_quick": 900, "budget_thorough": 7200},
    ],
}

CLI = [G + "cli_http.go", G + "c06_reload.go"] + MUX0
C11F = [G + "c11_fetch.go"] + CLI
CHECKS["C11"] = {
    "technique": "inductive step on the real fillSegmentQueue from an arbitrary (playlist, current segment) state; real runTraditional / runLowLatency against a scripted symbolic server",
    "bounds": {"quick": {"step.fill": "1..6 listed segments, media sequence and current segment in [0,2^30], ENDLIST / VOD / EVENT / untyped, 5 URI shapes, byte ranges with/without start below 10^5",
                         "run.traditional": "window 3..5, live edge advancing 0..2 per poll, 3 segments pulled", "run.lowlatency": "3 iterations, with/without CAN-SKIP-UNTIL and hint byte range"},
               "thorough": {"step.fill": "1..8 listed segments, byte ranges below 10^6", "run.traditional": "5 segments pulled", "run.lowlatency": "4 iterations"}},
    "assumptions": ["net/http replaced at NewRequestWithContext / Client.Do by a request log and scripted responses; playlists travel as tags (text layer = C14/C15)",
                    "net/url interpreted from source", "a harness thread plays the stream processor (pulls from the real segment queue)"],
    "outside": ["real network and pacing", "several rendition playlists evolving independently (each downloader instance runs the same code)"],
    "runs": [
        {"name": "step.fill", "files": C11F, "fn": "VerifH_C11_fill", "workers": 16, "params_quick": {"MAXSEGS": 6}, "params_thorough": {"MAXSEGS": 8, "MAXRANGE": 999999},
         "reach": ["downloads", "end-of-stream", "stops-with-error"], "budget_quick": 900, "budget_thorough": 7200},
        {"name": "run.cli.traditional", "files": C11F, "fn": "VerifH_C11_traditional", "workers": 16, "params_quick": {"POLLS": 3}, "params_thorough": {"POLLS": 5}, "reach": ["ran"]},
        {"name": "run.cli.lowlatency", "files": C11F, "fn": "VerifH_C11_lowlatency", "workers": 16, "params_quick": {"ITERS": 3}, "params_thorough": {"ITERS": 4}, "reach": ["ran"]},
    ],
}

CLIP = [G + "cli_proc.go"] + CLI
C12F_LATE = [G + "c12_client.go"] + CLIP
CHECKS["C10"] = {
    "technique": "real fMP4 stream/track processors, time converter and routine pool as engine threads on harness-built fragments with symbolic base times, durations and PTS offsets",
    "bounds": {"quick": {"many fragments": "one segment of 13 fragments x 1 sample (20 in the thorough tier)", "tracks": "H264 video + optional Opus audio at 48000/44100; run.cli.fmp4.codecs: H265 / VP9 / AV1 video + optional MPEG-4 audio", "segments x fragments x samples": "1 x 1..2 x 1..2", "base times": "[0, 2^40]", "durations": "[0, 2^20] / [0, 2^16]", "PTS offsets": "[-2^16, 2^16]",
                         "PROGRAM-DATE-TIME": "present or not per segment"},
               "thorough": {"segments x fragments x samples": "1..2 x 1..2 x 1..2"}},
    "assumptions": ["fmp4 Init/Part Marshal+Unmarshal are mutually inverse (symbolically an identity on the value; natively the real serialisation)", "PartSample.GetH264 returns the payload as one NAL unit (symbolic build)",
                    "time.Since returns a large value (no pacing sleep), time.After fires immediately", "harness implementations of the small client/downloader interfaces"],
    "outside": ["MPEG-TS demuxing and 33-bit wrap (mediacommon TimeDecoder)", "rendition playlists processed by a second stream processor", "byte-range addressing (C11)"],
    "runs": [{"name": "run.cli.fmp4.times", "files": CLIP, "fn": "VerifH_C10_fmp4", "workers": 16, "params": {"DATETIME": 0}, "params_quick": {"MAXSEGS": 1, "MAXFRAGS": 2, "MAXSAMPLES": 2},
              "params_thorough": {"MAXSEGS": 2, "MAXFRAGS": 2, "MAXSAMPLES": 2}, "reach": ["ran"], "budget_quick": 600, "budget_thorough": 7200, "qtimeout": 60000},
             {"name": "run.cli.fmp4.abstime", "files": CLIP, "fn": "VerifH_C10_fmp4", "workers": 16, "params": {"DATETIME": 1}, "params_quick": {"MAXSEGS": 1, "MAXFRAGS": 1, "MAXSAMPLES": 2, "DTBASEBITS": 24},
              "params_thorough": {"MAXSEGS": 1, "MAXFRAGS": 1, "MAXSAMPLES": 2, "DTBASEBITS": 24}, "reach": ["ran"], "budget_quick": 600, "budget_thorough": 7200, "qtimeout": 60000},
             # two segments with PROGRAM-DATE-TIME: the anchor of the second segment is not the origin (small ranges keep the rate conversions decidable)
             {"name": "run.cli.fmp4.abstime.2segs", "files": CLIP, "fn": "VerifH_C10_fmp4", "workers": 16, "params": {"DATETIME": 1, "MAXSEGS": 2, "MAXFRAGS": 1},
              "params_quick": {"MAXSAMPLES": 1, "DTBASEBITS": 12, "VDURBITS": 10, "ADURBITS": 10}, "params_thorough": {"MAXSAMPLES": 2, "DTBASEBITS": 16, "VDURBITS": 12, "ADURBITS": 12},
              "reach": ["ran"], "budget_quick": 600, "budget_thorough": 7200, "qtimeout": 60000}],
}
CHECKS["C10"]["runs"].append({"name": "run.cli.fmp4.codecs", "files": CLIP, "fn": "VerifH_C10_fmp4", "workers": 16, "params": {"DATETIME": 0, "CODECS": 1},
                              "params_quick": {"MAXSEGS": 1, "MAXFRAGS": 2, "MAXSAMPLES": 2}, "params_thorough": {"MAXSEGS": 2, "MAXFRAGS": 2, "MAXSAMPLES": 2},
                              "reach": ["ran"], "budget_quick": 600, "budget_thorough": 7200, "qtimeout": 60000})
CHECKS["C10"]["runs"].append({"name": "run.cli.rendition", "files": [G + "c10_rendition.go"] + C12F_LATE, "fn": "VerifH_C10_rendition", "workers": 16,
                              "params_quick": {"MAXSEGS": 2, "BASEBITS": 30}, "params_thorough": {"MAXSEGS": 3, "BASEBITS": 40}, "reach": ["ran", "end"],
                              "budget_quick": 600, "budget_thorough": 7200, "qtimeout": 60000, "replay_timeout": 120})
# a segment split into many fragments (chunked CMAF: one moof/mdat per frame), more than the stream processor's completion channel holds
CHECKS["C10"]["runs"].append({"name": "run.cli.fmp4.manyfrags", "files": CLIP, "fn": "VerifH_C10_fmp4", "workers": 16,
                              "params": {"DATETIME": 0, "MAXSEGS": 1, "MAXSAMPLES": 1, "PTSOFFBITS": 0}, "params_quick": {"FIXFRAGS": 13}, "params_thorough": {"FIXFRAGS": 20},
                              "reach": ["ran"], "budget_quick": 600, "budget_thorough": 3600, "qtimeout": 60000})
# one moof carrying many track fragments of the same track (more than the completion channel holds)
MANYTRAFS = {"name": "run.cli.fmp4.manytrafs", "files": CLIP, "fn": "VerifH_C10_fmp4", "workers": 16,
             "params": {"DATETIME": 0, "MAXSEGS": 1, "FIXFRAGS": 1, "PTSOFFBITS": 0}, "params_quick": {"DUPTRAFS": 13}, "params_thorough": {"DUPTRAFS": 20},
             "reach": ["ran"], "budget_quick": 600, "budget_thorough": 3600, "qtimeout": 60000}
CHECKS["C10"]["runs"].append(MANYTRAFS)
CHECKS["C13"] = {
    "technique": "the same real client stages on well-formed-but-unexpected parse results (every fMP4 codec kind, time scale 0, track-id permutations, empty fragments, absurd counts and values); engine panic / deadlock checks are the assertion",
    "bounds": {"quick": {"focus groups": "codec kinds (8) alone or beside video; time scales {90000,0,1,2^32-1}; init/fragment track ids in 1..4; 10..11 tracks; 0..2 fragments with/without tracks and samples",
                         "values": "base times [0,2^40] or {2^64-1, 2^63, 2^62}; durations [0,2^24] or {2^32-1, 0}; PTS offsets [-2^20,2^20] or int32 extremes"},
               "thorough": {"same": "same"}},
    "assumptions": CHECKS["C10"]["assumptions"] + ["playlist bytes: Unmarshal totality and post-conditions are C15's subject; the client indexes only what those post-conditions guarantee"],
    "outside": ["truncation inside mediacommon's parsers", "MPEG-TS payloads", "busy-loop freedom beyond: every loop iteration consumes a queue element or blocks (engine deadlock / step bound)"],
    "runs": [{"name": "run.cli.fmp4.malformed", "files": CLIP, "fn": "VerifH_C13_fmp4", "workers": 16, "reach": ["ran"], "budget_quick": 900, "budget_thorough": 7200, "qtimeout": 10000},
             {"name": "run.cli.lowlatency.playlists", "files": [G + "c11_fetch.go"] + CLI, "fn": "VerifH_C11_lowlatency", "workers": 16, "params_quick": {"ITERS": 2}, "params_thorough": {"ITERS": 3}, "reach": ["ran"]}],
}

C12F = [G + "c12_client.go"] + CLIP


def c12run(name, multi, pq, pt):
    return {"name": name, "files": C12F, "fn": "VerifH_C12_client", "workers": 16, "params": {"MULTI": multi}, "preempt_quick": pq, "preempt_thorough": pt,
            "reach": ["wait-yielded", "eos", "end"], "budget_quick": 900, "budget_thorough": 7200, "replay_timeout": 120}


CHECKS["C12"] = {
    "technique": "the whole real Client (Start, run, routine pool, downloaders, fMP4 processors, queues, time converter) as engine threads against a scripted server; "
                 "Close at a symbolic scheduling point, one fault at a symbolic request index; deadlock / live-thread / late-callback checks at quiescence",
    "bounds": {"quick": {"streams": "media playlist (video) and multivariant playlist with an audio rendition, VOD, 1..2 segments each", "faults": "status 500 / transport error / body stalling until cancelled at any request index, or none",
                         "OnTracks": "succeeds or returns an error", "Close": "not called, or called (twice) after a symbolic number of scheduling steps", "preemptions": 1},
               "thorough": {"preemptions": "2 (media playlist), 1 (multivariant)"}},
    "assumptions": CHECKS["C10"]["assumptions"] + ["net/http replaced by a scripted responder (goroutines inside net/http are outside the model)", "cooperative scheduler + bounded symbolic preemption at synchronisation points"],
    "outside": ["MPEG-TS processors beyond the back-pressure run", "live playlists in the whole-client runs (the Low-Latency downloader loop has its own run) and pacing sleeps (time.After fires immediately)", "goroutines inside net/http"],
    "runs": [c12run("conc.client.media", 0, 1, 2), c12run("conc.client.multivariant", 1, 1, 1),
             {"name": "conc.client.lowlatency", "files": [G + "c12_lowlat.go", G + "c11_fetch.go"] + C12F, "fn": "VerifH_C12_lowlatency", "workers": 8, "reach": ["stalled", "end"], "replay_timeout": 120}],
}

C09F = [G + "c09_cosim.go", G + "c12_client.go", G + "cli_ts.go"] + CLIP + [G + "mux_stub_findcompat.go"]


def c09run(name, tracks, kq, kt, **extra):
    r = {"name": name, "files": C09F, "fn": "VerifH_C09_cosim", "workers": 16, "params": {"VARIANT": 2, "TRACKS": tracks}, "params_quick": {"K": kq}, "params_thorough": {"K": kt},
         "reach": ["three-segments", "client-done", "unit-compared"], "budget_quick": 900, "budget_thorough": 7200, "replay_timeout": 120}
    r["params"].update(extra)
    return r


CHECKS["C09"] = {
    "technique": "co-simulation: K symbolic writes into the real fMP4 Muxer, then the whole real Client runs as engine threads with its HTTP requests answered by the real Muxer.Handle; "
                 "lemma: checkSupport accepts every codec string codecparams.Marshal produces for the codecs Start accepts",
    "bounds": {"quick": {"cosim.ll": "Low-Latency, H264 at 30 fps, 6 writes before the client attaches + 4 while it follows through blocking preload hints, symbolic key-frame placement", "cosim": "fMP4 and MPEG-TS, H264 video (and AV1 video in fMP4, K=4), K=5 writes (IDR / non-IDR / IDR with changed PPS), symbolic DTS deltas and SegmentMinDuration, client attached after the writes",
                         "lemma.codecs": "H264, H265, AV1, VP9 (profile 0..3, depth 8..12), MPEG-4 audio (object type 1..42), Opus"},
               "thorough": {"cosim": "K=5; H265 and VP9 video K=5; video + audio rendition K=5; Low-Latency K=11; AbsoluteTime run with symbolic origin and tabled frame durations"}},
    "assumptions": MUX_STUBS + CHECKS["C10"]["assumptions"] + ["the two wire formats (playlist text, fMP4 bytes) are lossless transports (C14 + mediacommon)"],
    "outside": ["MPEG-TS end to end with an audio track (video-only MPEG-TS is co-simulated; the audio half is the client.ts.times run)", "Low-Latency end to end beyond video-only at a constant frame rate with cooperative scheduling (the client runs until it blocks after every write)", "real HTTP and pacing"],
    "runs": [
        {"name": "lemma.codecs", "files": C09F, "fn": "VerifH_C09_codecs", "workers": 8, "reach": ["marshalled"]},
        c09run("cosim.fmp4.video", 0, 5, 5),
        c09run("cosim.fmp4.av1", 0, 4, 5, VCODEC=3, VKINDS=3),
        dict(c09run("cosim.ts.video", 0, 5, 6, VKINDS=2), params={"VARIANT": 1, "TRACKS": 0, "VKINDS": 2}),
        # the input class of the C09 known finding: a declared audio track that receives no data
        c09run("cosim.fmp4.silent-audio", 1, 4, 4, VKINDS=1, NOAUDIO=1),
        dict(c09run("cosim.fmp4.h265", 0, 5, 5, VCODEC=1, VKINDS=3), thorough_only=True),
        dict(c09run("cosim.fmp4.vp9", 0, 5, 5, VCODEC=2, VKINDS=3), thorough_only=True),
        dict(c09run("cosim.fmp4.video+audio", 1, 5, 5), thorough_only=True),
        dict(c09run("cosim.fmp4.abstime", 0, 5, 5, ABSTIME=1, CONCRETE=2, SYMSEGMIN=0, SEGMIN_MS=30, VKINDS=2), thorough_only=True, qtimeout=120000),
    ],
}

C08F = [G + "c08_race.go", G + "c06_reload.go"] + MUX


def c08run(name, variant, disk, kq, kt):
    return {"name": name, "files": C08F, "fn": "VerifH_C08_race", "workers": 16, "race": True, "params": {"VARIANT": variant, "DISK": disk},
            "params_quick": {"K": kq}, "params_thorough": {"K": kt}, "reach": ["end"], "budget_quick": 900, "budget_thorough": 7200, "replay_timeout": 400}


CHECKS["C08"] = {
    "technique": "lock-set race candidates computed on the symbolic paths of the real code (every heap access of the writer and of one reader thread per URL kind, with the mutexes held), "
                 "each candidate confirmed with the Go race detector on a native writer-vs-readers run before it is reported; panics in any thread are findings too",
    "bounds": {"quick": {"writes": "K=3 (Low-Latency + Directory), K=4 (fMP4 RAM), K=3 (MPEG-TS + Directory), incl. SPS/PPS changes", "readers": "one thread per URL kind (multivariant, media playlist, init, every listed segment and part, preload hint, unknown) started after a symbolic number of writes",
                         "native confirmation": "400 writes against 4 reader goroutines under -race"},
               "thorough": {"writes": "K=4 / 5 / 4"}},
    "assumptions": MUX_STUBS + ["lock-set discipline + happens-before from thread creation only (other happens-before edges are not modelled: such candidates are filtered by the native race detector, never reported unconfirmed)",
                                "atomic-snapshot and monotonicity sub-claims: playlists are generated with the muxer mutex held (C03-C06 constrain each snapshot)"],
    "outside": ["races between two readers on objects the bounded runs never create", "races the native stress run does not reproduce (listed as unconfirmed candidates in evidence)", "compiler / hardware reordering beyond the Go memory model"],
    "runs": [c08run("conc.race.ll.disk", 3, 1, 3, 4), c08run("conc.race.fmp4.ram", 2, 0, 4, 5), c08run("conc.race.ts.disk", 1, 1, 3, 4),
             dict(c08run("conc.race.ts.expiry", 1, 0, 6, 7), params={"VARIANT": 1, "DISK": 0, "ALLIDR": 1})],
}

TSSTEP = {"name": "step.ts.audio", "files": [G + "c02_step.go"] + MUX, "fn": "VerifH_C02_tsAudioStep", "workers": 16, "params": {"SEGMAXSIZE": 20},
          "reach": ["cut", "size-limit", "end"]}
CHECKS["C02"]["runs"] = CHECKS["C02"]["runs"] + [TSSTEP]
CHECKS["C18"]["runs"] = CHECKS["C18"]["runs"] + [TSSTEP]

VIEW = {"name": "conc.view", "files": [G + "c08_view.go", G + "c08_race.go", G + "c06_reload.go"] + MUX, "fn": "VerifH_C08_view", "workers": 16, "params": {"VARIANT": 1, "PRE": 5},
        "preempt_quick": 3, "preempt_thorough": 4, "reach": ["raced", "end"]}
VIEW2 = dict(VIEW, name="conc.view.fmp4", params={"VARIANT": 2, "PRE": 5})
CHECKS["C08"]["runs"] = CHECKS["C08"]["runs"] + [VIEW, VIEW2]
CHECKS["C04"]["runs"] = CHECKS["C04"]["runs"] + [VIEW, VIEW2]
CHECKS["C06"]["runs"] = CHECKS["C06"]["runs"] + [
    {"name": "conc.reload.2waiters", "files": C06F, "fn": "VerifH_C06_reload", "workers": 16, "params": {"WAITERS": 2}, "params_quick": {"K": 3}, "params_thorough": {"K": 4},
     "reach": ["answered", "blocked", "end"], "budget_quick": 900, "budget_thorough": 7200, "replay_timeout": 120}]

CLITS = [G + "cli_ts.go"] + CLIP
TSRUN = {"name": "run.cli.ts", "files": CLITS, "fn": "VerifH_C10_ts", "workers": 16, "params_quick": {"MAXSEGS": 2, "MAXV": 1, "MAXA": 1}, "params_thorough": {"MAXSEGS": 2, "MAXV": 1, "MAXA": 1},
         "reach": ["ran"], "budget_quick": 900, "budget_thorough": 7200, "qtimeout": 90000}
CHECKS["C10"]["runs"] = CHECKS["C10"]["runs"] + [TSRUN]
CHECKS["C09"]["runs"] = CHECKS["C09"]["runs"] + [dict(TSRUN, name="client.ts.times", prop="C10")]  # the client half of C09 (assertions carry C10's label)
CHECKS["C12"]["runs"] = CHECKS["C12"]["runs"] + [dict(MANYTRAFS, name="client.fmp4.manytrafs", prop="C10")]
CHECKS["C12"]["runs"] = CHECKS["C12"]["runs"] + [{"name": "conc.ts.backpressure", "files": CLITS, "fn": "VerifH_C12_tsBackpressure", "workers": 4, "reach": ["backpressure", "end"], "replay_timeout": 120}]
CHECKS["C13"]["runs"] = CHECKS["C13"]["runs"] + [dict(TSRUN, name="run.cli.ts.unexpected", params={"UNEXPECTED": 1}, params_quick={"MAXSEGS": 2, "MAXV": 1, "MAXA": 2}, params_thorough={"MAXSEGS": 2, "MAXV": 1, "MAXA": 2})]
CHECKS["C13"]["bounds"]["quick"]["mpeg-ts"] = "first segment with audio before the first video unit or without video data, 1..2 segments, symbolic 33-bit timestamps"
CHECKS["C13"]["outside"] = ["truncation inside mediacommon's parsers", "MPEG-TS payloads other than unexpected sample order / missing leading-track data",
                            "busy-loop freedom beyond: every loop iteration consumes a queue element or blocks (engine deadlock / step bound)"]
CHECKS["C10"]["outside"] = ["MPEG-TS demuxing itself (mpegts.Reader is the boundary; TimeDecoder is interpreted)", "rendition playlists processed by a second stream processor", "byte-range addressing (C11)",
                            "AbsoluteTime of non-leading MPEG-TS units that precede their segment's first leading unit in file order (the client anchors them through the previous segment's date-time, exact only for a gap-free wall clock)"]

# ---- extra mux runs, per property ----
def _mx(name, variant, tracks, kq, kt, reach, **extra):
    r = {"name": name, "files": MUX, "fn": "VerifH_mux_run", "workers": 16, "params": dict({"VARIANT": variant, "TRACKS": tracks}, **extra),
         "params_quick": {"K": kq}, "params_thorough": {"K": kt}, "reach": reach, "budget_quick": 900, "budget_thorough": 7200}
    return r


_STD = ["end", "cut", "observe", "decode-segment"]
OPUS = _mx("run.mux.fmp4.opus", 2, 4, 3, 4, _STD, MAXAUS=2)
LLVA = _mx("run.mux.ll.video+audio", 3, 1, 4, 5, _STD, VKINDS=2, FREEZEPART=1)
LLDISK = _mx("run.mux.ll.disk", 3, 0, 4, 5, _STD, VKINDS=2, DISK=1, CLOSE_AT_END=1, FREEZEPART=1)
# the other video codecs' write paths (fMP4): random access detection, skip-until-first-random-access, parameter changes
H265 = _mx("run.mux.fmp4.h265", 2, 0, 4, 5, _STD + ["init-after-change"], VCODEC=1, VKINDS=5)
VP9 = _mx("run.mux.fmp4.vp9", 2, 0, 4, 5, _STD + ["init-after-change"], VCODEC=2, VKINDS=3)
AV1 = _mx("run.mux.fmp4.av1", 2, 0, 4, 5, _STD + ["init-after-change"], VCODEC=3, VKINDS=3)
LLAV1 = _mx("run.mux.ll.av1", 3, 0, 3, 4, _STD, VCODEC=3, VKINDS=3)
LLVP9A = _mx("run.mux.ll.vp9+audio", 3, 1, 4, 5, _STD, VCODEC=2, VKINDS=2, FREEZEPART=1)
# audio-only fMP4 with 1..2 access units per WriteMPEG4Audio call
AONLY = dict(_mx("run.mux.fmp4.audio", 2, 2, 4, 4, _STD, MAXAUS=2), qtimeout=40000)
for pid, extra in [("C01", [OPUS, LLVA, LLDISK, H265, VP9, AV1, LLAV1, LLVP9A, AONLY]), ("C02", [OPUS, H265, VP9, AV1, LLAV1, LLVP9A]), ("C03", [OPUS, LLVA]), ("C04", [LLVA]), ("C05", [LLDISK]), ("C18", [LLDISK])]:
    CHECKS[pid]["runs"] = CHECKS[pid]["runs"] + extra
CHECKS["C19"]["runs"] = CHECKS["C19"]["runs"] + [
    {"name": "run.ll.parts.audio", "files": C19F, "fn": "VerifH_C19_run", "workers": 16, "params": {"AUDIO": 1}, "params_quick": {"K": 10}, "params_thorough": {"K": 14},
     "reach": ["non-final-part", "end"], "budget_quick": 900, "budget_thorough": 7200}]
CHECKS["C19"]["runs"][0]["params_quick"] = {"TABLE": 19}
# key frame every 15..17 frames: a segment completes (playlist available, TARGETDURATION >= 1) at 30 / 29.97 fps too (60 fps: thorough tier);
# with a key frame every 3..5 frames only the 10 fps stream completes a 500 ms segment within K frames
CHECKS["C19"]["runs"] = CHECKS["C19"]["runs"] + [
    {"name": "run.ll.parts.longgop", "files": C19F, "fn": "VerifH_C19_run", "workers": 16, "params": {"GOPBASE": 15, "PMINMAX_MS": 150}, "params_quick": {"K": 21}, "params_thorough": {"K": 36},
     "reach": ["non-final-part", "non-final-part@3000", "non-final-part@3003", "end"], "budget_quick": 900, "budget_thorough": 7200}]

CHECKS["C18"]["runs"] = CHECKS["C18"]["runs"] + [
    {"name": "run.mux.initfail", "files": [G + "c18_initfail.go", G + "c06_reload.go"] + MUX, "fn": "VerifH_C18_initfail", "workers": 16, "params": {"DISK": 1},
     "params_quick": {"K": 9}, "params_thorough": {"K": 12}, "reach": ["write-failed", "end"]}]

# SegmentCount above the Low-Latency minimum (7): URI numbers vs media sequence numbers, expiry bound of blocking reloads
LLSEG9 = _mx("run.mux.ll.segcount9", 3, 0, 3, 4, _STD, VKINDS=2, SEGCOUNT=9)
CHECKS["C04"]["runs"] = CHECKS["C04"]["runs"] + [LLSEG9]
CHECKS["C18"]["runs"] = CHECKS["C18"]["runs"] + [LLSEG9]
CHECKS["C06"]["runs"] = CHECKS["C06"]["runs"] + [
    {"name": "conc.reload.segcount12", "files": C06F, "fn": "VerifH_C06_reload", "workers": 16, "params": {"SEGCOUNT": 12}, "params_quick": {"K": 3}, "params_thorough": {"K": 4},
     "reach": ["answered", "blocked", "end"], "budget_quick": 900, "budget_thorough": 7200, "replay_timeout": 120}]
# Low-Latency end to end: the client follows the live muxer through blocking preload hints while the harness keeps writing
CHECKS["C09"]["runs"] = CHECKS["C09"]["runs"] + [
    {"name": "cosim.ll.video", "files": [G + "c09_llcosim.go"] + C09F, "fn": "VerifH_C09_llcosim", "workers": 16,
     "params": {"VARIANT": 3, "TRACKS": 0, "VKINDS": 2, "CONCRETE": 3, "SYMSEGMIN": 0, "SEGMIN_MS": 100, "PARTMIN_MS": 50},
     "params_quick": {"K": 10, "PRE": 6}, "params_thorough": {"K": 11, "PRE": 6}, "reach": ["attached", "client-done", "unit-compared"],
     "budget_quick": 900, "budget_thorough": 7200, "replay_timeout": 120}]
# C09 relies on the served TARGETDURATION being positive (the summary used in the co-simulation has the floor; this ties it to the real code)
CHECKS["C09"]["runs"] = CHECKS["C09"]["runs"] + [{"name": "lemma.targetDuration.table", "files": C03L, "fn": "VerifH_C03_targetDuration", "workers": 1, "reach": ["end"]}]
# the client half of C09 under a sliding live window (assertions carry C11's label)
CHECKS["C09"]["runs"] = CHECKS["C09"]["runs"] + [dict([r for r in CHECKS["C11"]["runs"] if r["name"] == "run.cli.traditional"][0], name="client.traditional", prop="C11")]

# SegmentMaxSize in the fMP4 write path (VP9: the sample payload is the frame itself, symbolically and natively)
MAXSZ = _mx("run.mux.fmp4.vp9.maxsize", 2, 0, 5, 6, ["end", "cut", "size-limit", "decode-segment"], VCODEC=2, VKINDS=2, SEGMAXSIZE=60, SYMMAXSIZE=1)
MAXSZLL = _mx("run.mux.ll.vp9.maxsize", 3, 0, 4, 4, ["end", "size-limit"], VCODEC=2, VKINDS=2, SEGMAXSIZE=60, SYMMAXSIZE=1)
MAXSZTS = _mx("run.mux.ts.maxsize", 1, 0, 5, 6, ["end", "cut", "size-limit"], VKINDS=2, SEGMAXSIZE=90, SYMMAXSIZE=1)
CHECKS["C18"]["runs"] = CHECKS["C18"]["runs"] + [MAXSZ, MAXSZLL, MAXSZTS]

WSTEP = {"name": "step.window", "files": [G + "c04_step.go"] + MUX, "fn": "VerifH_C04_step", "workers": 16, "params_quick": {"MAXMSN": 99999}, "params_thorough": {"MAXMSN": 1073741824},
         "reach": ["rotated", "evicted", "end"], "budget_quick": 900, "budget_thorough": 7200, "qtimeout": 60000}
for pid in ("C03", "C04", "C05", "C18"):
    CHECKS[pid]["runs"] = CHECKS[pid]["runs"] + [WSTEP]

# the boundary class of the C19 known finding (60 fps, PartMinDuration within a few ns of seven frame durations), so that the quick tier meets it too
CHECKS["C19"]["runs"] = CHECKS["C19"]["runs"] + [
    {"name": "run.ll.parts.boundary", "files": C19F, "fn": "VerifH_C19_run", "workers": 16,
     "params": {"GOPBASE": 15, "PMINMAX_MS": 150, "FRAMEIDX": 2, "PMIN_LO_NS": 116666640, "PMIN_HI_NS": 116666690, "K": 36}, "reach": ["non-final-part", "end"]}]

# seeds of round 4: the delta-update view of the window under C04, the two-segment AbsoluteTime run under C09
CHECKS["C04"]["runs"] = CHECKS["C04"]["runs"] + [dict([r for r in CHECKS["C06"]["runs"] if r["name"] == "step.delta"][0], prop="C06")]
CHECKS["C09"]["runs"] = CHECKS["C09"]["runs"] + [dict([r for r in CHECKS["C10"]["runs"] if r["name"] == "run.cli.fmp4.abstime.2segs"][0], name="client.fmp4.abstime.2segs", prop="C10")]
CHECKS["C11"]["runs"] = CHECKS["C11"]["runs"] + [dict([r for r in CHECKS["C10"]["runs"] if r["name"] == "run.cli.rendition"][0], name="client.rendition.urls", prop="C10")]
CHECKS["C20"]["runs"] = CHECKS["C20"]["runs"] + [
    {"name": "conc.pipeline.fmp4", "files": CLIP, "fn": "VerifH_C20_pipeline", "workers": 8, "params_quick": {"FRAGS": 3}, "params_thorough": {"FRAGS": 5},
     "reach": ["consumer-blocked", "end"], "replay_timeout": 120}]
CHECKS["C20"]["runs"] = CHECKS["C20"]["runs"] + [
    {"name": "run.cli.lookahead", "files": [G + "c20_lookahead.go"] + C11F, "fn": "VerifH_C20_lookahead", "workers": 16, "reach": ["quiescent", "end"], "replay_timeout": 120}]
CHECKS["C20"]["bounds"]["quick"]["look-ahead"] = "real runTraditional, VOD playlist or live window of 6..8 listed segments (edge moving 0..2 per reload), processor takes 0..2 segments and stays busy"
CHECKS["C20"]["bounds"]["thorough"]["look-ahead"] = "same"
CHECKS["C20"]["bounds"]["quick"]["pipeline"] = "3 fMP4 segments x 3 fragments, the consumer blocks in the last unit of the first segment"
# reordered frames (PTS != DTS): mediacommon's real B-frame vector, arbitrary SegmentMinDuration
def _bf(name, variant):
    return {"name": name, "files": [G + "c02_bframes.go"] + MUX, "fn": "VerifH_C02_bframes", "workers": 8,
            "params": {"VARIANT": variant, "TRACKS": 0, "BFRAMES": 1}, "reach": ["end", "cut"], "budget_quick": 600, "budget_thorough": 3600}
for pid in ("C01", "C02"):
    CHECKS[pid]["runs"] = CHECKS[pid]["runs"] + [_bf("run.mux.ts.bframes", 1), _bf("run.mux.fmp4.bframes", 2)]
# round-5 seeds: reordered frames under C03 (EXTINF from DTS), the Opus run under C09, the fill step under C10 (byte-range chains)
CHECKS["C03"]["runs"] = CHECKS["C03"]["runs"] + [_bf("run.mux.ts.bframes", 1)]
CHECKS["C09"]["runs"] = CHECKS["C09"]["runs"] + [dict(OPUS, name="mux.fmp4.opus", prop="C01")]
CHECKS["C10"]["runs"] = CHECKS["C10"]["runs"] + [dict([r for r in CHECKS["C11"]["runs"] if r["name"] == "step.fill"][0], name="step.fill.byteranges", prop="C11")]
TSVA = _mx("run.mux.ts.video+audio48k", 1, 1, 5, 5, ["end", "cut", "observe"], VKINDS=2, ACLOCK=48000)  # audio clock rate != sample rate
CHECKS["C01"]["runs"] = CHECKS["C01"]["runs"] + [TSVA]
AVORDER = _mx("run.mux.fmp4.audio+video", 2, 5, 5, 5, _STD, VKINDS=2)
for pid in ("C01", "C02"):
    CHECKS[pid]["runs"] = CHECKS[pid]["runs"] + [AVORDER]
# three parts in one file (a middle part: offset > 0 and data after it), few operations
CHECKS["C17"]["runs"] = CHECKS["C17"]["runs"] + [
    {"name": "run.storage.equiv.3parts", "dir": "pkg/storage", "files": [S + "c17_storage.go", "rt/fs_model.go"], "fn": "VerifH_C17_storage", "workers": 16,
     "params": {"MAXPARTS": 3, "OPS": 1, "OPS2": 1, "MAXW": 1, "MAXBUF": 1, "MINPARTS": 3, "OFFNEG": 1, "OFFPOS": 2}, "reach": ["end"], "budget_quick": 900, "budget_thorough": 7200}]

# cheap lemma / step harnesses first: the driver stops at the first run with a confirmed violation
for _pid in CHECKS:
    CHECKS[_pid]["runs"] = sorted(CHECKS[_pid]["runs"], key=lambda r: 0 if r["name"].split(".")[0] in ("lemma", "step") else 1)
