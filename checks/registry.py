# Registry of checks: property -> harness runs (symgo invocations) with their bounds per tier.

G = "gohlslib/"

CHECKS = {
    "C20": {
        "technique": "FIFO step harness + interference harnesses with symbolic preemption at synchronisation points",
        "bounds": {
            "quick": {"queue length": "0..3", "operations": "K=4 push/pull", "preemptions": 3, "consumer pulls / producer pushes": "0..2"},
            "thorough": {"queue length": "0..3", "operations": "K=7", "preemptions": 5, "consumer pulls / producer pushes": "0..2"},
        },
        "assumptions": [
            "preemption only at synchronisation points (lock, unlock, channel operation, select, close) — sound for data-race-free code",
            "context package interpreted from source; sync.Mutex / channels / select modelled by the engine",
            "one producer and one consumer (the way client_stream_downloader / processors use the queue)",
        ],
        "outside": ["end-to-end server-speed runs", "more than the stated number of preemptions"],
        "runs": [
            {"name": "step.queue", "files": [G + "c20_queue.go"], "fn": "VerifH_C20_step", "params_quick": {"K": 4}, "params_thorough": {"K": 7}, "reach": ["end"]},
            {"name": "conc.queue.producer", "files": [G + "c20_queue.go", G + "c20_queue_native.go"], "fn": "VerifH_C20_producer",
             "preempt_quick": 3, "preempt_thorough": 5, "reach": ["producer-returned", "producer-still-blocked"]},
            {"name": "conc.queue.consumer", "files": [G + "c20_queue.go", G + "c20_queue_native.go"], "fn": "VerifH_C20_consumer",
             "preempt_quick": 3, "preempt_thorough": 5, "reach": ["consumer-returned", "consumer-still-blocked"]},
            {"name": "conc.queue.cancel", "files": [G + "c20_queue.go", G + "c20_queue_native.go"], "fn": "VerifH_C20_cancel",
             "preempt_quick": 3, "preempt_thorough": 5, "reach": ["end"]},
        ],
    },
}
