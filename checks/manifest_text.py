# Per-property level text / notes for MANIFEST.json

B = ("Holds for every input inside the stated bounds (evidence lists them per run); nothing is claimed outside them. "
     "The solver decides each path condition and assertion; counterexamples are replayed against the natively compiled package before they are reported.")

TEXT = {
 "C01": {"level": "Bounded model checking of the real Muxer: K real writes with symbolic timestamps / key-frame placement / parameter changes; every advertised segment and part is fetched through the real handlers, decoded and compared with a ghost list of accepted units. " + B,
         "note": "mediacommon boundary stubbed (its Marshal/Unmarshal trusted to be inverse); playlist text layer bypassed here (C14/C15); integer summaries of the two float kernels proven by C03's lemmas; H264 in all variants, H265 / VP9 / AV1 / Opus / audio-only multi-AU in dedicated fMP4 and Low-Latency runs"},
 "C02": {"level": "Same bounded runs: the specification cut rule (random access and (min duration reached or pending parameter change)) is evaluated on the symbolic inputs and compared with the observed rotations of every stream; first unit of each segment; init contents. " + B,
         "note": "as C01; the audio-only MPEG-TS 100-write rule is checked by a step harness from an arbitrary write count (state correspondence: counter = number of writes into the open segment)"},
 "C03": {"level": "Playlist durations, target durations and date-times of every served playlist compared with the ghost segments in the bounded runs, plus arithmetic lemmas: timestampToDuration within 1 ns of exact (Int), round/ceil float kernels equal to their integer summaries (bit-vector + IEEE-754, cvc5). " + B,
         "note": "float lemmas stated over the stdlib expression on pre-split operands; durations compared to 10 us"},
 "C04": {"level": "Relation between consecutive served playlists of every stream in the bounded runs (MSN monotone and stable, window size, URI numbers, part numbering, preload hint, equal MSNs across streams). " + B,
         "note": "histories up to K writes from the real initial state (the key-frame-only runs slide the window 3-6 times) plus the inductive step.window harness (one real rotation from an arbitrary state satisfying the window invariant, MSN up to 99999 / 2^30); a request racing a rotation is covered by the conc.view runs (3 preemptions); Low-Latency with SegmentCount 7 and 9"},
 "C05": {"level": "Every URI of every served playlist is fetched through the real Muxer.Handle at first and later listings (status, content type, immutability, segment = concatenation of parts, fragment sequence numbers); expired and unknown URIs must not be served. " + B,
         "note": "RAM storage in the symbolic-timestamp runs; Directory storage (in-harness file system) in the slide and Low-Latency disk runs"},
 "C06": {"level": "Lemma: real hasPart vs the published(M,P) predicate on arbitrary stream states; request threads with symbolic _HLS_msn/_HLS_part text inside a real Low-Latency run (blocked-only-while-unpublished evaluated at quiescence after every write); preload hint; delta update vs full playlist. " + B,
         "note": "cooperative scheduling with the writer's real writes as interference; one or two waiters; SegmentCount 7 and 12"},
 "C07": {"level": "Pending requests of four kinds + real Close with symbolic preemption at its synchronisation points; afterwards all requests completed (non-200), lock free, later requests return, in-harness Directory empty. " + B,
         "note": "preemption only at synchronisation points; OS file system replaced by a POSIX-like model"},
 "C08": {"level": "Lock-set race candidates computed over the symbolic paths of the real muxer and storage code (writer accesses vs one reader thread per URL kind, with the mutexes held; happens-before from thread creation), every candidate confirmed by the Go race detector on a native stress run before being reported; run-time panics in any thread are findings. " + B,
         "note": "candidates the native run does not reproduce are listed as unconfirmed in evidence and not reported; atomic-view sub-claim rests on playlists being generated under the muxer mutex"},
 "C09": {"level": "Co-simulation inside the engine: symbolic writes into the real fMP4 Muxer, then the whole real Client reads it through the real Muxer.Handle; reported tracks and every delivered unit compared with what was written; lemma on codec-string acceptance. " + B,
         "note": "client attached after the writes; fMP4 variant (H264, AV1; H265 / VP9 in the thorough tier); the MPEG-TS client half and the sliding-window downloader are covered by the client.ts.times / client.traditional runs; transports (playlist text, fMP4 bytes) trusted lossless"},
 "C10": {"level": "Real fMP4 stream/track processors, time converter and routine pool as engine threads on harness-built fragments with symbolic base times, durations and PTS offsets: delivered units = exactly those with pts >= 0, normalised to the first leading DTS, AbsoluteTime from PROGRAM-DATE-TIME. " + B,
         "note": "MPEG-TS demuxing is mediacommon's (outside), the 33-bit time decoder is interpreted; AbsoluteTime runs use smaller ranges and are compared at the resolution of one tick of the track's clock; H265 / VP9 / AV1 / MPEG-4 audio in run.cli.fmp4.codecs"},
 "C11": {"level": "Inductive step on the real fillSegmentQueue from an arbitrary (playlist, current segment) state (covers histories of any length for 'next = current+1'), plus the real runTraditional / runLowLatency loops against a scripted symbolic server. " + B,
         "note": "net/http replaced at NewRequestWithContext / Client.Do; one downloader instance"},
 "C12": {"level": "The whole real Client as engine threads against a scripted server, Close at a symbolic scheduling point and a fault at every request; exactly one error on Wait, no live goroutine, no late callback (deadlock = violation). " + B,
         "note": "bounded symbolic preemption; goroutines inside net/http outside the model; the Low-Latency downloader loop with a held preload-hint / playlist request has its own run"},
 "C13": {"level": "Real client stages on well-formed-but-unexpected parse results (every fMP4 codec kind, time scale 0, track-id permutations, empty fragments, absurd counts/values) and on Low-Latency playlists with any PROGRAM-DATE-TIME subset; Go run-time panics and wedges are the assertion. " + B,
         "note": "arbitrary playlist bytes are C15's subject (decoder totality + post-conditions); truncation inside mediacommon's parsers outside; MPEG-TS: unexpected sample order / missing leading-track data in the first segment"},
 "C14": {"level": "Symbolic field values (integers as symbolic decimal text, arbitrary legal string bytes, presence flags) through the real Marshal and Unmarshal: field-wise equality, Marshal fixpoint, kind detection, CRLF/unknown-tag/no-trailing-newline variant. " + B,
         "note": "durations, date-times and frame rates from enumerated boundary values (float formatting not solver-decided)"},
 "C15": {"level": "Arbitrary symbolic bytes after each of 36 tag prefixes in a valid frame through the real decoders (no panic; structural post-conditions on success; result marshals); independent strict RFC 8216 grammar symbolically executed over the real Marshal output for the C14 value space. " + B,
         "note": "one arbitrary line per document; ParseFloat / time.Parse on symbolic text are nondeterministic stubs"},
 "C16": {"level": "Symbolic track lists through the real Start and generateMultivariantPlaylist (accept/reject rule, variant, renditions, DEFAULT, names, URIs, query preservation), multivariant checks inside the bounded muxer runs, non-linear lemma on bandwidth(). " + B,
         "note": "RESOLUTION/FRAME-RATE against the stubbed SPS; exact RFC 6381 strings of H264 / AAC / Opus and, by lemma.codecs.av1 (arbitrary sequence-header fields, natively a real encoded sequence header), AV1; H265 / VP9 by prefix"},
 "C17": {"level": "Differential harness: RAM backend vs disk backend (in-harness file system) vs byte-slice model under one symbolic sequence of Write/Seek operations with symbolic bytes and offsets; readers before/after Finalize and after Remove. " + B,
         "note": "small sizes (<= 3 bytes per write, offsets in [-4, 8]); OS replaced by a POSIX-like model"},
 "C18": {"level": "Window size, expired-URI, unknown-URI and Directory file-count checks in the bounded muxer runs (incl. key-frame-only runs that slide the window several times and a run with failing init regeneration); SegmentMaxSize rule by a step harness from an arbitrary segment state. " + B,
         "note": "retention over thousands of rotations is argued from the per-rotation checks, not proven inductively; SegmentMaxSize exactness for MPEG-TS audio/video writes only"},
 "C19": {"level": "Lemma on the real findCompatiblePartDuration with symbolic PartMinDuration for each constant sample duration of the table (all four clauses of the statement), plus a real Low-Latency run with symbolic PartMinDuration checking every served playlist. " + B,
         "note": "sample durations from the table only; video-led runs (with and without an audio rendition) execute the real float kernels (targetDuration / partTargetDuration) on concrete frame durations at 10 / 30 / 29.97 / 60 fps"},
 "C20": {"level": "FIFO/exactly-once step harness and interference harnesses (throttled producer, blocked consumer, cancellation) with symbolic preemption at every synchronisation point; lost wake-ups appear as 'blocked although the predicate holds' at quiescence. " + B,
         "note": "one producer, one consumer; preemption only at synchronisation points"},
}

NOT_APPLICABLE = {}
