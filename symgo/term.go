package main

import (
	"fmt"
	"math/big"
	"strings"
)

// Term is an SMT term. Kind KBool, KInt (a Go integer of width W) or KFP (float64).
//
// Two encodings of Go integers exist (chosen per run):
//   - int mode (default): sort Int, the term denotes the *typed* Go value
//     (negative for negative signed values, 0..2^W-1 for unsigned ones);
//     every arithmetic result is range-checked and wrapped explicitly (machine.go: wrap).
//   - bv mode: sort (_ BitVec W), exact by construction.
type Term struct {
	S      string
	K      int
	W      int
	C      *big.Int // constant value; bool: 0/1; int mode: typed value; bv mode: unsigned representation
	Lo, Hi *big.Int // int mode only: known bounds on the typed value (nil = unknown)
	FC     *float64 // KFP constant
}

const (
	KBool = iota
	KInt
	KFP
)

var bvMode bool

var (
	big0 = big.NewInt(0)
	big1 = big.NewInt(1)
)

func pow2(n int) *big.Int { return new(big.Int).Lsh(big1, uint(n)) }
func mask(w int) *big.Int { return new(big.Int).Sub(pow2(w), big1) }

func typeRange(w int, signed bool) (*big.Int, *big.Int) {
	if signed {
		return new(big.Int).Neg(pow2(w - 1)), new(big.Int).Sub(pow2(w-1), big1)
	}
	return big.NewInt(0), mask(w)
}

func intLit(v *big.Int) string {
	if v.Sign() < 0 {
		return "(- " + new(big.Int).Neg(v).String() + ")"
	}
	return v.String()
}

// wrapConst brings v into the typed range of (w, signed).
func wrapConst(v *big.Int, w int, signed bool) *big.Int {
	x := new(big.Int).And(v, mask(w)) // big.Int And on negatives uses two's complement semantics
	if v.Sign() < 0 {
		x = new(big.Int).Mod(v, pow2(w))
	}
	if signed && x.Bit(w-1) == 1 {
		x.Sub(x, pow2(w))
	}
	return x
}

// mkConst builds an integer constant whose typed value is v (already in range for int mode).
func mkConst(v *big.Int, w int) *Term {
	if bvMode {
		x := new(big.Int).Mod(v, pow2(w))
		return &Term{S: fmt.Sprintf("(_ bv%s %d)", x.String(), w), K: KInt, W: w, C: x}
	}
	x := new(big.Int).Set(v)
	return &Term{S: intLit(x), K: KInt, W: w, C: x, Lo: x, Hi: x}
}
func mkU(v uint64, w int) *Term { return mkConst(new(big.Int).SetUint64(v), w) }
func mkI(v int64, w int) *Term  { return mkConst(big.NewInt(v), w) }

var tTrue = &Term{S: "true", K: KBool, C: big.NewInt(1)}
var tFalse = &Term{S: "false", K: KBool, C: big.NewInt(0)}

func mkBool(b bool) *Term {
	if b {
		return tTrue
	}
	return tFalse
}

func (t *Term) IsConst() bool { return t.C != nil || t.FC != nil }
func (t *Term) Bool() bool    { return t.C.Sign() != 0 }

// val returns the typed constant value given signedness (bv mode needs the sign).
func (t *Term) val(signed bool) *big.Int {
	if !bvMode {
		return t.C
	}
	v := new(big.Int).Set(t.C)
	if signed && v.Bit(t.W-1) == 1 {
		v.Sub(v, pow2(t.W))
	}
	return v
}

func (t *Term) Int64() int64 { return t.val(true).Int64() }

func tNot(a *Term) *Term {
	if a.IsConst() {
		return mkBool(!a.Bool())
	}
	if strings.HasPrefix(a.S, "(not ") {
		return &Term{S: a.S[5 : len(a.S)-1], K: KBool}
	}
	return &Term{S: "(not " + a.S + ")", K: KBool}
}
func tAnd(a, b *Term) *Term {
	if a.IsConst() {
		if a.Bool() {
			return b
		}
		return a
	}
	if b.IsConst() {
		if b.Bool() {
			return a
		}
		return b
	}
	if a.S == b.S {
		return a
	}
	return &Term{S: "(and " + a.S + " " + b.S + ")", K: KBool}
}
func tOr(a, b *Term) *Term {
	if a.IsConst() {
		if a.Bool() {
			return a
		}
		return b
	}
	if b.IsConst() {
		if b.Bool() {
			return b
		}
		return a
	}
	if a.S == b.S {
		return a
	}
	return &Term{S: "(or " + a.S + " " + b.S + ")", K: KBool}
}

func minB(a, b *big.Int) *big.Int {
	if a == nil || b == nil {
		return nil
	}
	if a.Cmp(b) < 0 {
		return a
	}
	return b
}
func maxB(a, b *big.Int) *big.Int {
	if a == nil || b == nil {
		return nil
	}
	if a.Cmp(b) > 0 {
		return a
	}
	return b
}

func tIte(c, a, b *Term) *Term {
	if c.IsConst() {
		if c.Bool() {
			return a
		}
		return b
	}
	if a.S == b.S {
		return a
	}
	if a.K == KBool {
		// boolean ite with constants simplifies
		if a.IsConst() && b.IsConst() {
			if a.Bool() {
				return c
			}
			return tNot(c)
		}
		if a.IsConst() {
			if a.Bool() {
				return tOr(c, b)
			}
			return tAnd(tNot(c), b)
		}
		if b.IsConst() {
			if b.Bool() {
				return tOr(tNot(c), a)
			}
			return tAnd(c, a)
		}
	}
	return &Term{S: "(ite " + c.S + " " + a.S + " " + b.S + ")", K: a.K, W: a.W, Lo: minB(a.Lo, b.Lo), Hi: maxB(a.Hi, b.Hi)}
}

func tEq(a, b *Term) *Term {
	if a.K == KFP || b.K == KFP {
		if a.FC != nil && b.FC != nil {
			return mkBool(*a.FC == *b.FC)
		}
		return &Term{S: "(fp.eq " + a.S + " " + b.S + ")", K: KBool}
	}
	if a.C != nil && b.C != nil {
		return mkBool(a.C.Cmp(b.C) == 0)
	}
	if a.S == b.S {
		return tTrue
	}
	if a.K == KInt && !bvMode {
		if a.Hi != nil && b.Lo != nil && a.Hi.Cmp(b.Lo) < 0 {
			return tFalse
		}
		if a.Lo != nil && b.Hi != nil && a.Lo.Cmp(b.Hi) > 0 {
			return tFalse
		}
	}
	return &Term{S: "(= " + a.S + " " + b.S + ")", K: KBool}
}

// tCmp builds a comparison; op in lt, le, gt, ge.
func tCmp(op string, a, b *Term, signed bool) *Term {
	if a.K == KFP {
		if a.FC != nil && b.FC != nil {
			x, y := *a.FC, *b.FC
			switch op {
			case "lt":
				return mkBool(x < y)
			case "le":
				return mkBool(x <= y)
			case "gt":
				return mkBool(x > y)
			default:
				return mkBool(x >= y)
			}
		}
		m := map[string]string{"lt": "fp.lt", "le": "fp.leq", "gt": "fp.gt", "ge": "fp.geq"}
		return &Term{S: "(" + m[op] + " " + a.S + " " + b.S + ")", K: KBool}
	}
	if a.C != nil && b.C != nil {
		c := a.val(signed).Cmp(b.val(signed))
		switch op {
		case "lt":
			return mkBool(c < 0)
		case "le":
			return mkBool(c <= 0)
		case "gt":
			return mkBool(c > 0)
		default:
			return mkBool(c >= 0)
		}
	}
	if !bvMode {
		// interval folding
		switch op {
		case "gt":
			return tCmp("lt", b, a, signed)
		case "ge":
			return tCmp("le", b, a, signed)
		case "lt":
			if a.Hi != nil && b.Lo != nil && a.Hi.Cmp(b.Lo) < 0 {
				return tTrue
			}
			if a.Lo != nil && b.Hi != nil && a.Lo.Cmp(b.Hi) >= 0 {
				return tFalse
			}
			return &Term{S: "(< " + a.S + " " + b.S + ")", K: KBool}
		case "le":
			if a.Hi != nil && b.Lo != nil && a.Hi.Cmp(b.Lo) <= 0 {
				return tTrue
			}
			if a.Lo != nil && b.Hi != nil && a.Lo.Cmp(b.Hi) > 0 {
				return tFalse
			}
			return &Term{S: "(<= " + a.S + " " + b.S + ")", K: KBool}
		}
	}
	p := "bvu"
	if signed {
		p = "bvs"
	}
	return &Term{S: "(" + p + op + " " + a.S + " " + b.S + ")", K: KBool}
}

// ---- int-mode raw arithmetic (mathematical, un-wrapped) with intervals ----

func addB(a, b *big.Int) *big.Int {
	if a == nil || b == nil {
		return nil
	}
	return new(big.Int).Add(a, b)
}
func subB(a, b *big.Int) *big.Int {
	if a == nil || b == nil {
		return nil
	}
	return new(big.Int).Sub(a, b)
}

func rawAdd(a, b *Term) *Term {
	if a.C != nil && b.C != nil {
		v := new(big.Int).Add(a.C, b.C)
		return &Term{S: intLit(v), K: KInt, W: a.W, C: v, Lo: v, Hi: v}
	}
	if b.C != nil && b.C.Sign() == 0 {
		return a
	}
	if a.C != nil && a.C.Sign() == 0 {
		return b
	}
	return &Term{S: "(+ " + a.S + " " + b.S + ")", K: KInt, W: a.W, Lo: addB(a.Lo, b.Lo), Hi: addB(a.Hi, b.Hi)}
}
func rawSub(a, b *Term) *Term {
	if a.C != nil && b.C != nil {
		v := new(big.Int).Sub(a.C, b.C)
		return &Term{S: intLit(v), K: KInt, W: a.W, C: v, Lo: v, Hi: v}
	}
	if b.C != nil && b.C.Sign() == 0 {
		return a
	}
	if a.S == b.S {
		return mkI(0, a.W)
	}
	return &Term{S: "(- " + a.S + " " + b.S + ")", K: KInt, W: a.W, Lo: subB(a.Lo, b.Hi), Hi: subB(a.Hi, b.Lo)}
}
func rawMul(a, b *Term) *Term {
	if a.C != nil && b.C != nil {
		v := new(big.Int).Mul(a.C, b.C)
		return &Term{S: intLit(v), K: KInt, W: a.W, C: v, Lo: v, Hi: v}
	}
	if a.C != nil && a.C.Cmp(big1) == 0 {
		return b
	}
	if b.C != nil && b.C.Cmp(big1) == 0 {
		return a
	}
	if (a.C != nil && a.C.Sign() == 0) || (b.C != nil && b.C.Sign() == 0) {
		return mkI(0, a.W)
	}
	t := &Term{S: "(* " + a.S + " " + b.S + ")", K: KInt, W: a.W}
	if a.Lo != nil && a.Hi != nil && b.Lo != nil && b.Hi != nil {
		ps := []*big.Int{new(big.Int).Mul(a.Lo, b.Lo), new(big.Int).Mul(a.Lo, b.Hi), new(big.Int).Mul(a.Hi, b.Lo), new(big.Int).Mul(a.Hi, b.Hi)}
		lo, hi := ps[0], ps[0]
		for _, p := range ps[1:] {
			lo, hi = minB(lo, p), maxB(hi, p)
		}
		t.Lo, t.Hi = lo, hi
	}
	return t
}

func nonNeg(t *Term) bool { return t.Lo != nil && t.Lo.Sign() >= 0 }
func positive(t *Term) bool { return t.Lo != nil && t.Lo.Sign() > 0 }

// rawDiv: Go truncated division (b != 0 established by caller).
func rawDiv(a, b *Term) *Term {
	if a.C != nil && b.C != nil && b.C.Sign() != 0 {
		v := new(big.Int).Quo(a.C, b.C)
		return &Term{S: intLit(v), K: KInt, W: a.W, C: v, Lo: v, Hi: v}
	}
	if b.C != nil && b.C.Cmp(big1) == 0 {
		return a
	}
	if nonNeg(a) && positive(b) {
		t := &Term{S: "(div " + a.S + " " + b.S + ")", K: KInt, W: a.W, Lo: big0}
		if a.Hi != nil {
			t.Hi = new(big.Int).Quo(a.Hi, b.Lo)
		}
		if a.Lo != nil && b.Hi != nil {
			t.Lo = new(big.Int).Quo(a.Lo, b.Hi)
		}
		return t
	}
	// general truncated division: sign(a)*sign(b)*(|a| div |b|)
	absA := "(abs " + a.S + ")"
	absB := "(abs " + b.S + ")"
	q := "(div " + absA + " " + absB + ")"
	s := "(ite (= (>= " + a.S + " 0) (>= " + b.S + " 0)) " + q + " (- " + q + "))"
	t := &Term{S: s, K: KInt, W: a.W}
	if a.Lo != nil && a.Hi != nil {
		m := maxB(new(big.Int).Abs(a.Lo), new(big.Int).Abs(a.Hi))
		t.Lo, t.Hi = new(big.Int).Neg(m), m
	}
	return t
}

// rawRem: Go truncated remainder (sign follows dividend).
func rawRem(a, b *Term) *Term {
	if a.C != nil && b.C != nil && b.C.Sign() != 0 {
		v := new(big.Int).Rem(a.C, b.C)
		return &Term{S: intLit(v), K: KInt, W: a.W, C: v, Lo: v, Hi: v}
	}
	if nonNeg(a) && positive(b) {
		t := &Term{S: "(mod " + a.S + " " + b.S + ")", K: KInt, W: a.W, Lo: big0}
		if b.Hi != nil {
			t.Hi = new(big.Int).Sub(b.Hi, big1)
			if a.Hi != nil && a.Hi.Cmp(t.Hi) < 0 {
				t.Hi = a.Hi
			}
		}
		return t
	}
	absA := "(abs " + a.S + ")"
	absB := "(abs " + b.S + ")"
	r := "(mod " + absA + " " + absB + ")"
	s := "(ite (>= " + a.S + " 0) " + r + " (- " + r + "))"
	t := &Term{S: s, K: KInt, W: a.W}
	if b.Lo != nil && b.Hi != nil {
		m := maxB(new(big.Int).Abs(b.Lo), new(big.Int).Abs(b.Hi))
		t.Lo, t.Hi = new(big.Int).Neg(m), m
	}
	return t
}

// rawFloorDivPow2: arithmetic shift right = floor division by 2^k (SMT div by a positive constant is floor).
func rawFloorDivPow2(a *Term, k int) *Term {
	d := pow2(k)
	if a.C != nil {
		v := new(big.Int).Div(a.C, d) // Euclidean, floor for positive divisor
		return &Term{S: intLit(v), K: KInt, W: a.W, C: v, Lo: v, Hi: v}
	}
	t := &Term{S: "(div " + a.S + " " + d.String() + ")", K: KInt, W: a.W}
	if a.Lo != nil {
		t.Lo = new(big.Int).Div(a.Lo, d)
	}
	if a.Hi != nil {
		t.Hi = new(big.Int).Div(a.Hi, d)
	}
	return t
}

// rawModPow2: low k bits as a non-negative integer (valid for negative typed values too).
func rawModPow2(a *Term, k int) *Term {
	d := pow2(k)
	if a.C != nil {
		v := new(big.Int).Mod(a.C, d)
		return &Term{S: intLit(v), K: KInt, W: a.W, C: v, Lo: v, Hi: v}
	}
	if a.Lo != nil && a.Lo.Sign() >= 0 && a.Hi != nil && a.Hi.Cmp(d) < 0 {
		return a
	}
	return &Term{S: "(mod " + a.S + " " + d.String() + ")", K: KInt, W: a.W, Lo: big0, Hi: new(big.Int).Sub(d, big1)}
}

// bit i of a (0/1) as Int term (a taken modulo 2^W).
func rawBit(a *Term, i int) *Term {
	if a.C != nil {
		v := new(big.Int).Mod(a.C, pow2(a.W))
		return mkI(int64(v.Bit(i)), a.W)
	}
	return &Term{S: "(mod (div " + a.S + " " + pow2(i).String() + ") 2)", K: KInt, W: a.W, Lo: big0, Hi: big1}
}

// ---- bv-mode ops ----

func bvOp(op string, a, b *Term, signed bool) *Term {
	w := a.W
	if a.C != nil && b.C != nil {
		x, y := a.val(signed), b.val(signed)
		r := new(big.Int)
		ok := true
		switch op {
		case "add":
			r.Add(x, y)
		case "sub":
			r.Sub(x, y)
		case "mul":
			r.Mul(x, y)
		case "and":
			r.And(a.C, b.C)
		case "or":
			r.Or(a.C, b.C)
		case "xor":
			r.Xor(a.C, b.C)
		case "andnot":
			r.AndNot(a.C, b.C)
		case "div":
			if y.Sign() == 0 {
				ok = false
			} else {
				r.Quo(x, y)
			}
		case "rem":
			if y.Sign() == 0 {
				ok = false
			} else {
				r.Rem(x, y)
			}
		case "shl":
			if b.C.BitLen() > 16 {
				r.SetInt64(0)
			} else {
				r.Lsh(a.C, uint(b.C.Uint64()))
			}
		case "shr":
			if b.C.BitLen() > 16 {
				if x.Sign() < 0 {
					r.SetInt64(-1)
				}
			} else {
				r.Rsh(x, uint(b.C.Uint64()))
			}
		default:
			ok = false
		}
		if ok {
			return mkConst(r, w)
		}
	}
	var s string
	switch op {
	case "add":
		s = "bvadd"
	case "sub":
		s = "bvsub"
	case "mul":
		s = "bvmul"
	case "and":
		s = "bvand"
	case "or":
		s = "bvor"
	case "xor":
		s = "bvxor"
	case "andnot":
		return &Term{S: "(bvand " + a.S + " (bvnot " + b.S + "))", K: KInt, W: w}
	case "div":
		s = "bvudiv"
		if signed {
			s = "bvsdiv"
		}
	case "rem":
		s = "bvurem"
		if signed {
			s = "bvsrem"
		}
	case "shl":
		s = "bvshl"
	case "shr":
		s = "bvlshr"
		if signed {
			s = "bvashr"
		}
	default:
		panic("bvOp " + op)
	}
	return &Term{S: "(" + s + " " + a.S + " " + b.S + ")", K: KInt, W: w}
}

func bvResize(a *Term, from, to int, signed bool) *Term {
	if to == from {
		return a
	}
	if a.C != nil {
		return mkConst(a.val(signed), to)
	}
	if to < from {
		return &Term{S: fmt.Sprintf("((_ extract %d 0) %s)", to-1, a.S), K: KInt, W: to}
	}
	if signed {
		return &Term{S: fmt.Sprintf("((_ sign_extend %d) %s)", to-from, a.S), K: KInt, W: to}
	}
	return &Term{S: fmt.Sprintf("((_ zero_extend %d) %s)", to-from, a.S), K: KInt, W: to}
}

// ---- floating point (bv mode for symbolic; constants in any mode) ----

func mkF(f float64) *Term {
	return &Term{S: fpLit(f), K: KFP, FC: &f}
}

func fpLit(f float64) string {
	// exact: build from the IEEE bits
	bits := fbits(f)
	return fmt.Sprintf("(fp #b%01b #b%011b #x%013x)", bits>>63, (bits>>52)&0x7ff, bits&((1<<52)-1))
}

func sortOf(t *Term) string {
	switch t.K {
	case KBool:
		return "Bool"
	case KFP:
		return "(_ FloatingPoint 11 53)"
	}
	if bvMode {
		return fmt.Sprintf("(_ BitVec %d)", t.W)
	}
	return "Int"
}
