package main

import (
	"fmt"
	"sort"
	"strings"

	"golang.org/x/tools/go/ssa"
)

// Lockset-based race candidates (C08): every heap access of every thread is logged with the set
// of mutexes the thread holds; two accesses to the same cell from different threads, at least
// one of them a write, with disjoint lock sets and no happens-before edge from thread creation,
// are a race candidate. Candidates are confirmed natively with the Go race detector before
// they are reported.

type raceAcc struct {
	tid   int
	write bool
	locks string // sorted ids of held mutexes
	site  string
	epoch int // number of threads spawned so far when the access happened (main thread only)
}

type raceState struct {
	acc      map[*Cell][]raceAcc
	maps     map[*Map][]raceAcc
	spawnAt  map[int]int // thread id -> epoch at which it was spawned
	epoch    int
	curSite  string
}

func (m *Machine) race() *raceState {
	if m.pathTag == nil {
		m.pathTag = map[string]interface{}{}
	}
	r, ok := m.pathTag["\x00race"].(*raceState)
	if !ok {
		r = &raceState{acc: map[*Cell][]raceAcc{}, maps: map[*Map][]raceAcc{}, spawnAt: map[int]int{}}
		m.pathTag["\x00race"] = r
	}
	return r
}

func (m *Machine) cid(c *Cell) int {
	if c.ID == 0 {
		m.cellID++
		c.ID = m.cellID
	}
	return c.ID
}

func (m *Machine) lockString() string {
	var ids []string
	for c, t := range m.held {
		if t == m.cur {
			ids = append(ids, fmt.Sprintf("W%d", m.cid(c)))
		}
	}
	for c, n := range m.rheldBy[m.cur] {
		if n > 0 {
			ids = append(ids, fmt.Sprintf("R%d", m.cid(c)))
		}
	}
	sort.Strings(ids)
	return strings.Join(ids, ",")
}

func (m *Machine) siteString() string {
	t := m.cur
	if len(t.stack) == 0 {
		return "?"
	}
	// accesses made by harness code itself (stubs, models, ghost state) are not the subject
	// (the harness's http.ResponseWriter is transparent: what it reads of the handler's data is the handler's read)
	if top := t.stack[len(t.stack)-1]; strings.Contains(top.Name(), "erif") && !strings.Contains(top.String(), "verifRW") {
		return ""
	}
	// innermost module function (not harness)
	for i := len(t.stack) - 1; i >= 0; i-- {
		f := t.stack[i]
		if f.Pkg != nil && strings.HasPrefix(f.Pkg.Pkg.Path(), m.cfg.Module) && !strings.Contains(f.Name(), "erif") {
			pos := ""
			if m.curInstr != nil && i == len(t.stack)-1 {
				p := m.prog.Fset.Position(m.curInstr.Pos())
				if p.IsValid() {
					pos = fmt.Sprintf(":%d", p.Line)
				}
			}
			return shortFn(f) + pos
		}
	}
	return ""
}

func shortFn(f *ssa.Function) string {
	s := f.String()
	if i := strings.LastIndex(s, "/"); i >= 0 {
		s = s[i+1:]
	}
	return s
}

func (m *Machine) access(c *Cell, write bool) {
	m.cid(c)
	site := m.siteString()
	if site == "" {
		return
	}
	r := m.race()
	a := raceAcc{tid: m.cur.id, write: write, locks: m.lockString(), site: site, epoch: len(m.threads)}
	l := r.acc[c]
	// compress: identical consecutive entries
	for _, o := range l {
		if o.tid == a.tid && o.write == a.write && o.locks == a.locks && o.site == a.site && (a.tid != 0 || o.epoch == a.epoch) {
			return
		}
	}
	if len(l) < 64 {
		r.acc[c] = append(l, a)
	}
}

func (m *Machine) accessMap(mp *Map, write bool) {
	if mp == nil || !m.cfg.RaceLog {
		return
	}
	site := m.siteString()
	if site == "" {
		return
	}
	r := m.race()
	a := raceAcc{tid: m.cur.id, write: write, locks: m.lockString(), site: site, epoch: len(m.threads)}
	for _, o := range r.maps[mp] {
		if o.tid == a.tid && o.write == a.write && o.locks == a.locks && o.site == a.site && (a.tid != 0 || o.epoch == a.epoch) {
			return
		}
	}
	if len(r.maps[mp]) < 64 {
		r.maps[mp] = append(r.maps[mp], a)
	}
}

func disjointLocks(a, b string) bool {
	if a == "" || b == "" {
		return true
	}
	as := strings.Split(a, ",")
	for _, x := range strings.Split(b, ",") {
		for _, y := range as {
			// same mutex; two read locks do not exclude each other
			if x[1:] == y[1:] && !(x[0] == 'R' && y[0] == 'R') {
				return false
			}
		}
	}
	return true
}

// raceCandidates is evaluated at the end of a path.
func (m *Machine) raceCandidates() []string {
	r, ok := m.pathTag["\x00race"].(*raceState)
	if !ok {
		return nil
	}
	seen := map[string]bool{}
	var out []string
	check := func(l []raceAcc) {
		for i := range l {
			for j := i + 1; j < len(l); j++ {
				a, b := l[i], l[j]
				if a.tid == b.tid || (!a.write && !b.write) {
					continue
				}
				if !disjointLocks(a.locks, b.locks) {
					continue
				}
				// happens-before through thread creation: accesses of the spawning (main) thread made before
				// the other thread existed are ordered before everything that thread does
				if a.tid == 0 && b.tid != 0 && a.epoch <= b.tid {
					continue
				}
				if b.tid == 0 && a.tid != 0 && b.epoch <= a.tid {
					continue
				}
				w, rd := a, b
				if !a.write {
					w, rd = b, a
				}
				k := w.site + " <-> " + rd.site
				if !seen[k] {
					seen[k] = true
					out = append(out, k)
				}
			}
		}
	}
	for _, l := range r.acc {
		check(l)
	}
	for _, l := range r.maps {
		check(l)
	}
	sort.Strings(out)
	return out
}
