package main

import (
	"fmt"
	"go/types"
	"math"
	"math/big"
	"strconv"
	"strings"

	"golang.org/x/tools/go/ssa"
)

func (m *Machine) hook(name string) *ssa.Function {
	if m.cfg.HarnessPkg == nil {
		return nil
	}
	return m.cfg.HarnessPkg.Func(name)
}


func termOf(v Value) *Term { return v.(*Term) }

func cstr(v Value) string {
	s, ok := v.(string)
	if !ok {
		unsupported("intrinsic needs a constant string argument, got %T", v)
	}
	return s
}

func cint(v Value) int {
	t := v.(*Term)
	if t.C == nil {
		unsupported("intrinsic needs a constant integer argument")
	}
	return int(t.Int64())
}

func fieldIndex(t types.Type, name string) int {
	if p, ok := t.Underlying().(*types.Pointer); ok {
		t = p.Elem()
	}
	st := t.Underlying().(*types.Struct)
	for i := 0; i < st.NumFields(); i++ {
		if st.Field(i).Name() == name {
			return i
		}
	}
	panic("no field " + name)
}

func (m *Machine) errorsNew(msg string) Value {
	en := m.prog.ImportedPackage("errors").Func("New")
	return m.call(en, []Value{msg}, nil)
}

// side tables for sync models (per path)
type syncState struct {
	wg     map[*Cell]int
	once   map[*Cell]bool
	atomv  map[*Cell]Value
}

func (m *Machine) sync() *syncState {
	if m.pathTag == nil {
		m.pathTag = map[string]interface{}{}
	}
	s, ok := m.pathTag["\x00sync"].(*syncState)
	if !ok {
		s = &syncState{wg: map[*Cell]int{}, once: map[*Cell]bool{}, atomv: map[*Cell]Value{}}
		m.pathTag["\x00sync"] = s
	}
	return s
}

func (m *Machine) variadicArgs(v Value) []Value {
	s, ok := v.(Slice)
	if !ok {
		return nil
	}
	var r []Value
	for i := 0; i < s.Len; i++ {
		r = append(r, s.A.at(s.Off+i).V)
	}
	return r
}

func (m *Machine) fmtValue(v Value) string {
	switch x := v.(type) {
	case Iface:
		if x.T == nil {
			return "<nil>"
		}
		return m.fmtValue(x.V)
	case *Term:
		if x.C != nil {
			return x.C.String()
		}
		if x.FC != nil {
			return strconv.FormatFloat(*x.FC, 'g', -1, 64)
		}
		return "<sym>"
	case string:
		return x
	case SStr:
		return "<symstr>"
	case Ptr:
		return "<ptr>"
	}
	return fmt.Sprintf("<%T>", v)
}

func (m *Machine) sprintf(format string, args []Value) string {
	var sb strings.Builder
	ai := 0
	for i := 0; i < len(format); i++ {
		c := format[i]
		if c != '%' || i+1 >= len(format) {
			sb.WriteByte(c)
			continue
		}
		j := i + 1
		for j < len(format) && strings.IndexByte("+-# 0123456789.", format[j]) >= 0 {
			j++
		}
		if j >= len(format) {
			break
		}
		if format[j] == '%' {
			sb.WriteByte('%')
		} else if ai < len(args) {
			sb.WriteString(m.fmtValue(args[ai]))
			ai++
		}
		i = j
	}
	return sb.String()
}

// intrinsic intercepts harness intrinsics, stubs and modelled library functions.
func (m *Machine) intrinsic(fn *ssa.Function, args []Value) (Value, bool) {
	short := fn.Name()
	if strings.HasPrefix(short, "verif") && fn.Pkg != nil && m.isModulePkg(fn.Pkg) && fn.Signature.Recv() == nil {
		if r, ok := m.verifIntrinsic(short, fn, args); ok {
			return r, true
		}
	}
	name := fn.String()
	if sname, ok := m.cfg.Stubs[name]; ok {
		if h := m.hook(sname); h != nil {
			m.ex.mu.Lock()
			m.ex.StubsUsed[name+" -> "+sname]++
			m.ex.mu.Unlock()
			return m.call(h, args, nil), true
		}
		unsupported("stub %s for %s not found in harness package", sname, name)
	}
	if fn.Pkg == nil && fn.Origin() == nil {
		return nil, false
	}
	pkg := ""
	if fn.Pkg != nil {
		pkg = fn.Pkg.Pkg.Path()
	} else if o := fn.Origin(); o != nil && o.Pkg != nil {
		pkg = o.Pkg.Pkg.Path()
	}
	switch pkg {
	case "sync":
		return m.syncModel(name, fn, args)
	case "sync/atomic":
		return m.atomicModel(name, fn, args)
	case "internal/bytealg":
		return m.bytealgModel(name, args)
	case "math":
		return m.mathModel(name, args)
	case "math/bits", "strconv", "strings", "fmt", "log", "errors", "time", "runtime", "internal/abi", "unicode/utf8", "os", "internal/race", "internal/godebug", "unsafe", "bytes", "net/http", "context", "crypto/rand", "reflect", "internal/reflectlite", "io", "internal/stringslite":
		return m.libModel(pkg, name, fn, args)
	}
	return nil, false
}

func (m *Machine) verifIntrinsic(short string, fn *ssa.Function, args []Value) (Value, bool) {
	switch short {
	case "verifU64":
		return m.declareInt(cstr(args[0]), 64, false, nil, nil), true
	case "verifI64":
		return m.declareInt(cstr(args[0]), 64, true, nil, nil), true
	case "verifRangeU64":
		return m.declareInt(cstr(args[0]), 64, false, termOf(args[1]).val(false), termOf(args[2]).val(false)), true
	case "verifRangeI64", "verifRangeInt":
		return m.declareInt(cstr(args[0]), 64, true, termOf(args[1]).val(true), termOf(args[2]).val(true)), true
	case "verifByte":
		return m.declareInt(cstr(args[0]), 8, false, nil, nil), true
	case "verifBool":
		return m.declareBool(cstr(args[0])), true
	case "verifSymString":
		n := cint(args[1])
		ss := make(SStr, n)
		for k := range ss {
			ss[k] = m.declareInt(cstr(args[0]), 8, false, nil, nil)
		}
		if n == 0 {
			return "", true
		}
		return ss, true
	case "verifSymBytes":
		n := cint(args[1])
		ss := make([]*Term, n)
		for k := range ss {
			ss[k] = m.declareInt(cstr(args[0]), 8, false, nil, nil)
		}
		return bytesToSlice(ss), true
	case "verifChoice":
		n := cint(args[1])
		name := cstr(args[0])
		d := m.pureFork(n)
		// recorded as a pseudo-nondet so that native replay takes the same alternative
		m.ncount[name]++
		nn := fmt.Sprintf("%s!%d", name, m.ncount[name])
		m.nondets = append(m.nondets, nn)
		m.sol.Send(fmt.Sprintf("(declare-const |%s| Int)", nn))
		m.sol.Send(fmt.Sprintf("(assert (= |%s| %d))", nn, d))
		return mkI(int64(d), 64), true
	case "verifAssume":
		c := termOf(args[0])
		if !c.IsConst() {
			r := m.sol.Check(c.S)
			m.sol.Pop()
			if r == "unsat" {
				panic(pathEnd{"infeasible", "assume"})
			}
			if r != "sat" {
				m.inconclusive("solver unknown on assume")
			}
		}
		m.assume(c)
		return nil, true
	case "verifPrefer":
		if c := termOf(args[0]); !c.IsConst() {
			m.prefers = append(m.prefers, c)
		}
		return nil, true
	case "verifAssert":
		prop, label := cstr(args[0]), cstr(args[1])
		if m.cfg.Prop != "" && prop != m.cfg.Prop && prop != "*" {
			// not the property being checked: treat as an assumption-free no-op
			return nil, true
		}
		m.check(prop, label, termOf(args[2]))
		return nil, true
	case "verifFail":
		prop, label := cstr(args[0]), cstr(args[1])
		if m.cfg.Prop != "" && prop != m.cfg.Prop && prop != "*" {
			return nil, true
		}
		m.check(prop, label, tFalse)
		return nil, true
	case "verifReach":
		m.reached[cstr(args[0])] = true
		return nil, true
	case "verifParam":
		if v, ok := m.cfg.Params[cstr(args[0])]; ok {
			return mkI(int64(v), 64), true
		}
		return args[1], true
	case "verifProp":
		return mkBool(m.cfg.Prop == "" || m.cfg.Prop == cstr(args[0])), true
	case "verifSymbolic":
		return tTrue, true
	case "verifLog":
		s := cstr(args[0])
		for _, a := range m.variadicArgs(args[1]) {
			s += " " + m.fmtValue(a)
		}
		if len(m.logs) < 200 {
			m.logs = append(m.logs, s)
		}
		return nil, true
	case "verifSample":
		// record a sample description for evidence
		if m.pathTag == nil {
			m.pathTag = map[string]interface{}{}
		}
		m.pathTag[cstr(args[0])] = m.fmtValue(args[1])
		return nil, true
	case "verifHeld":
		c := args[0].(Ptr).C
		return mkBool(m.held[c] != nil), true
	case "verifHeldByMe":
		c := args[0].(Ptr).C
		return mkBool(m.held[c] == m.cur), true
	case "verifQuiesce":
		m.quiesce()
		return nil, true
	case "verifYield":
		m.yieldPoint("explicit")
		return nil, true
	case "verifThreads":
		return mkI(int64(len(m.threads)), 64), true
	case "verifThreadState":
		// 0 runnable/running, 1 blocked, 2 done
		id := cint(args[0])
		if id >= len(m.threads) {
			return mkI(2, 64), true
		}
		t := m.threads[id]
		switch t.state {
		case tDone:
			return mkI(2, 64), true
		case tBlocked:
			if t.cond != nil && t.cond() {
				return mkI(0, 64), true
			}
			return mkI(1, 64), true
		}
		return mkI(0, 64), true
	case "verifThreadInCondWait":
		id := cint(args[0])
		if id < len(m.threads) {
			t := m.threads[id]
			return mkBool(t.state == tBlocked && t.inCondWait != nil && !t.condWoken), true
		}
		return tFalse, true
	case "verifLiveThreads":
		n := 0
		for _, t := range m.threads[1:] {
			if t.state != tDone {
				n++
			}
		}
		return mkI(int64(n), 64), true
	case "verifBlockedDesc":
		id := cint(args[0])
		if id < len(m.threads) && m.threads[id].state == tBlocked {
			return m.threads[id].desc, true
		}
		return "", true
	case "verifChanClosed":
		ch, _ := args[0].(*Chan)
		return mkBool(ch != nil && ch.Closed), true
	case "verifIsConcrete":
		switch x := args[0].(type) {
		case *Term:
			return mkBool(x.IsConst()), true
		}
		return tTrue, true
	case "verifStopPath":
		panic(pathEnd{"stop", "harness stop"})
	case "verifNote":
		return nil, true
	case "verifF64FromParts":
		// float64 of sec + nsec/1e9 style helpers are written in harness code; nothing here
		return nil, false
	case "verifSymF64":
		if !bvMode {
			unsupported("symbolic float64 requires bv mode")
		}
		n := m.declare(cstr(args[0]), "(_ FloatingPoint 11 53)")
		return &Term{S: "|" + n + "|", K: KFP}, true
	}
	return nil, false
}

func (m *Machine) syncModel(name string, fn *ssa.Function, args []Value) (Value, bool) {
	switch name {
	case "(*sync.Mutex).Lock":
		m.mutexLock(args[0].(Ptr).C, "Mutex.Lock")
		return nil, true
	case "(*sync.Mutex).TryLock":
		c := args[0].(Ptr).C
		if m.held[c] == nil {
			m.held[c] = m.cur
			return tTrue, true
		}
		return tFalse, true
	case "(*sync.Mutex).Unlock":
		m.mutexUnlock(args[0].(Ptr).C)
		return nil, true
	case "(*sync.RWMutex).Lock":
		m.mutexLock(args[0].(Ptr).C, "RWMutex.Lock")
		return nil, true
	case "(*sync.RWMutex).Unlock":
		m.mutexUnlock(args[0].(Ptr).C)
		return nil, true
	case "(*sync.RWMutex).RLock":
		m.rLock(args[0].(Ptr).C)
		return nil, true
	case "(*sync.RWMutex).RUnlock":
		m.rUnlock(args[0].(Ptr).C)
		return nil, true
	case "(*sync.Cond).Wait":
		p := args[0].(Ptr)
		if p.C == nil {
			m.goPanic("nil pointer dereference (sync.Cond)")
		}
		st := p.C.V.(*Struct)
		l := st.F[fieldIndex(fn.Signature.Recv().Type(), "L")].V.(Iface)
		mu := l.V.(Ptr).C
		m.condWait(p.C, mu)
		return nil, true
	case "(*sync.Cond).Broadcast":
		p := args[0].(Ptr)
		if p.C == nil {
			m.goPanic("nil pointer dereference (sync.Cond)")
		}
		m.condBroadcast(p.C, true)
		return nil, true
	case "(*sync.Cond).Signal":
		p := args[0].(Ptr)
		if p.C == nil {
			m.goPanic("nil pointer dereference (sync.Cond)")
		}
		m.condBroadcast(p.C, false)
		return nil, true
	case "(*sync.WaitGroup).Add":
		c := args[0].(Ptr).C
		s := m.sync()
		s.wg[c] += cint(args[1])
		if s.wg[c] < 0 {
			m.goPanic("sync: negative WaitGroup counter")
		}
		return nil, true
	case "(*sync.WaitGroup).Done":
		c := args[0].(Ptr).C
		s := m.sync()
		s.wg[c]--
		if s.wg[c] < 0 {
			m.goPanic("sync: negative WaitGroup counter")
		}
		m.yieldPoint("wg-done")
		return nil, true
	case "(*sync.WaitGroup).Wait":
		c := args[0].(Ptr).C
		s := m.sync()
		m.yieldPoint("wg-wait")
		m.block(func() bool { return s.wg[c] == 0 }, "WaitGroup.Wait")
		return nil, true
	case "(*sync.Once).Do":
		c := args[0].(Ptr).C
		s := m.sync()
		if !s.once[c] {
			s.once[c] = true
			cl := args[1].(*Closure)
			m.call(cl.Fn, nil, cl.Env)
		}
		return nil, true
	case "(*sync.Pool).Get":
		st := args[0].(Ptr).C.V.(*Struct)
		nf := st.F[fieldIndex(fn.Signature.Recv().Type(), "New")].V.(*Closure)
		if nf == nil {
			return Iface{}, true
		}
		return m.call(nf.Fn, nil, nf.Env), true
	case "(*sync.Pool).Put":
		return nil, true
	}
	return nil, false
}

func (m *Machine) atomicModel(name string, fn *ssa.Function, args []Value) (Value, bool) {
	short := fn.Name()
	if fn.Signature.Recv() != nil {
		// typed atomics: (*Value), (*Pointer[T]) need models; the integer ones have bodies calling the functions below
		rn := fn.Signature.Recv().Type().String()
		if strings.Contains(rn, "atomic.Value") || strings.Contains(rn, "atomic.Pointer") {
			c := args[0].(Ptr).C
			s := m.sync()
			switch short {
			case "Load":
				if v, ok := s.atomv[c]; ok {
					return v, true
				}
				return zero(fn.Signature.Results().At(0).Type()), true
			case "Store":
				s.atomv[c] = args[1]
				return nil, true
			case "Swap":
				old, ok := s.atomv[c]
				if !ok {
					old = zero(fn.Signature.Results().At(0).Type())
				}
				s.atomv[c] = args[1]
				return old, true
			case "CompareAndSwap":
				old, ok := s.atomv[c]
				if !ok {
					old = zero(fn.Signature.Params().At(0).Type())
				}
				if m.branch(m.valEq(old, args[1])) {
					s.atomv[c] = args[2]
					return tTrue, true
				}
				return tFalse, true
			}
		}
		return nil, false
	}
	switch {
	case strings.HasPrefix(short, "Load"):
		return m.load(args[0].(Ptr), "atomic"), true
	case strings.HasPrefix(short, "Store"):
		storeInto(args[0].(Ptr).C, args[1])
		return nil, true
	case strings.HasPrefix(short, "Add"):
		p := args[0].(Ptr)
		w, signed, _ := intInfo(fn.Signature.Params().At(1).Type())
		nv := m.arithAdd(p.C.V.(*Term), args[1].(*Term), w, signed)
		p.C.V = nv
		return nv, true
	case strings.HasPrefix(short, "Swap"):
		p := args[0].(Ptr)
		old := p.C.V
		storeInto(p.C, args[1])
		return old, true
	case strings.HasPrefix(short, "CompareAndSwap"):
		p := args[0].(Ptr)
		if m.branch(m.valEq(p.C.V, args[1])) {
			storeInto(p.C, args[2])
			return tTrue, true
		}
		return tFalse, true
	case strings.HasPrefix(short, "And") || strings.HasPrefix(short, "Or"):
		return nil, false
	}
	return nil, false
}

func (m *Machine) arithAdd(a, b *Term, w int, signed bool) *Term {
	if bvMode {
		return bvOp("add", a, b, signed)
	}
	return m.wrap(rawAdd(a, b), w, signed)
}

func toSStr(v Value) SStr {
	switch x := v.(type) {
	case string, SStr:
		return asS(x)
	case Slice:
		return SStr(sliceTerms(x))
	}
	panic(fmt.Sprintf("toSStr %T", v))
}

// indexByteSym: first index of c in s, forking on the position.
func (m *Machine) indexByteSym(s SStr, c *Term) Value {
	allConst := c.C != nil
	for _, b := range s {
		if b.C == nil {
			allConst = false
		}
	}
	if allConst {
		for k, b := range s {
			if b.C.Cmp(c.C) == 0 {
				return mkI(int64(k), 64)
			}
		}
		return mkI(-1, 64)
	}
	var conds []*Term
	none := tTrue
	for k := range s {
		e := tEq(s[k], c)
		conds = append(conds, tAnd(none, e))
		none = tAnd(none, tNot(e))
		if none.IsConst() && !none.Bool() {
			break
		}
	}
	conds = append(conds, none)
	d := m.decide(conds)
	if d == len(conds)-1 && !(none.IsConst() && !none.Bool()) {
		return mkI(-1, 64)
	}
	return mkI(int64(d), 64)
}

func (m *Machine) lastIndexByteSym(s SStr, c *Term) Value {
	var conds []*Term
	none := tTrue
	for k := len(s) - 1; k >= 0; k-- {
		e := tEq(s[k], c)
		conds = append(conds, tAnd(none, e))
		none = tAnd(none, tNot(e))
	}
	conds = append(conds, none)
	d := m.decide(conds)
	if d == len(s) {
		return mkI(-1, 64)
	}
	return mkI(int64(len(s)-1-d), 64)
}

func (m *Machine) indexSym(s, sep SStr) Value {
	n := len(sep)
	if n == 0 {
		return mkI(0, 64)
	}
	var conds []*Term
	none := tTrue
	for k := 0; k+n <= len(s); k++ {
		e := strEq(s[k:k+n], sep)
		conds = append(conds, tAnd(none, e))
		none = tAnd(none, tNot(e))
	}
	conds = append(conds, none)
	d := m.decide(conds)
	if d == len(conds)-1 {
		return mkI(-1, 64)
	}
	return mkI(int64(d), 64)
}

func (m *Machine) bytealgModel(name string, args []Value) (Value, bool) {
	short := name[strings.LastIndex(name, ".")+1:]
	switch short {
	case "IndexByteString", "IndexByte":
		return m.indexByteSym(toSStr(args[0]), termOf(args[1])), true
	case "LastIndexByteString", "LastIndexByte":
		return m.lastIndexByteSym(toSStr(args[0]), termOf(args[1])), true
	case "CountString", "Count":
		s, c := toSStr(args[0]), termOf(args[1])
		cnt := mkI(0, 64)
		for _, b := range s {
			e := tEq(b, c)
			if e.IsConst() {
				if e.Bool() {
					cnt = rawAdd(cnt, mkI(1, 64))
				}
				continue
			}
			if m.branch(e) {
				cnt = rawAdd(cnt, mkI(1, 64))
			}
		}
		return cnt, true
	case "IndexString", "Index":
		return m.indexSym(toSStr(args[0]), toSStr(args[1])), true
	case "Equal":
		return strEq(toSStr(args[0]), toSStr(args[1])), true
	case "Compare", "CompareString":
		a, b := toSStr(args[0]), toSStr(args[1])
		lt := m.strBin(tokenLSS, a, b).(*Term)
		if m.branch(lt) {
			return mkI(-1, 64), true
		}
		if m.branch(strEq(a, b)) {
			return mkI(0, 64), true
		}
		return mkI(1, 64), true
	case "MakeNoZero":
		n := cint(args[0])
		return Slice{newArray(n, types.Typ[types.Uint8]), 0, n, n}, true
	case "Cutover":
		return mkI(8, 64), true
	case "HashStr", "HashStrRev", "IndexRabinKarp", "LastIndexRabinKarp":
		return nil, false
	}
	return nil, false
}

func (m *Machine) mathModel(name string, args []Value) (Value, bool) {
	short := strings.TrimPrefix(name, "math.")
	f1 := func(cf func(float64) float64, smt string) (Value, bool) {
		t := termOf(args[0])
		if t.FC != nil {
			return mkF(cf(*t.FC)), true
		}
		if smt == "" {
			unsupported("math.%s on symbolic float", short)
		}
		return &Term{S: "(" + smt + " " + t.S + ")", K: KFP}, true
	}
	switch short {
	case "Round":
		return f1(math.Round, "fp.roundToIntegral RNA")
	case "Floor":
		return f1(math.Floor, "fp.roundToIntegral RTN")
	case "Ceil":
		return f1(math.Ceil, "fp.roundToIntegral RTP")
	case "Trunc":
		return f1(math.Trunc, "fp.roundToIntegral RTZ")
	case "RoundToEven":
		return f1(math.RoundToEven, "fp.roundToIntegral RNE")
	case "Abs":
		return f1(math.Abs, "fp.abs")
	case "Sqrt":
		return f1(math.Sqrt, "fp.sqrt RNE")
	case "Float64bits":
		t := termOf(args[0])
		if t.FC != nil {
			return mkU(math.Float64bits(*t.FC), 64), true
		}
		unsupported("Float64bits of symbolic float")
	case "Float64frombits":
		t := termOf(args[0])
		if t.C != nil {
			return mkF(math.Float64frombits(t.val(false).Uint64())), true
		}
		unsupported("Float64frombits of symbolic value")
	case "Float32bits":
		t := termOf(args[0])
		if t.FC != nil {
			return mkU(uint64(math.Float32bits(float32(*t.FC))), 32), true
		}
	case "Float32frombits":
		t := termOf(args[0])
		if t.C != nil {
			return mkF(float64(math.Float32frombits(uint32(t.val(false).Uint64())))), true
		}
	case "IsNaN":
		t := termOf(args[0])
		if t.FC != nil {
			return mkBool(math.IsNaN(*t.FC)), true
		}
		return &Term{S: "(fp.isNaN " + t.S + ")", K: KBool}, true
	case "IsInf":
		t := termOf(args[0])
		if t.FC != nil {
			return mkBool(math.IsInf(*t.FC, cint(args[1]))), true
		}
		return &Term{S: "(fp.isInfinite " + t.S + ")", K: KBool}, true
	case "Inf":
		return mkF(math.Inf(cint(args[0]))), true
	case "NaN":
		return mkF(math.NaN()), true
	case "Pow":
		a, b := termOf(args[0]), termOf(args[1])
		if a.FC != nil && b.FC != nil {
			return mkF(math.Pow(*a.FC, *b.FC)), true
		}
	case "Log2", "Log", "Log10", "Exp":
		a := termOf(args[0])
		if a.FC != nil {
			switch short {
			case "Log2":
				return mkF(math.Log2(*a.FC)), true
			case "Log":
				return mkF(math.Log(*a.FC)), true
			case "Log10":
				return mkF(math.Log10(*a.FC)), true
			case "Exp":
				return mkF(math.Exp(*a.FC)), true
			}
		}
	case "Mod":
		a, b := termOf(args[0]), termOf(args[1])
		if a.FC != nil && b.FC != nil {
			return mkF(math.Mod(*a.FC, *b.FC)), true
		}
	case "Max", "Min":
		a, b := termOf(args[0]), termOf(args[1])
		if a.FC != nil && b.FC != nil {
			if short == "Max" {
				return mkF(math.Max(*a.FC, *b.FC)), true
			}
			return mkF(math.Min(*a.FC, *b.FC)), true
		}
	}
	return nil, false
}

var tokenLSS = mustTok("<")

func concreteFloat(v Value) (float64, bool) {
	t, ok := v.(*Term)
	if !ok || t.FC == nil {
		return 0, false
	}
	return *t.FC, true
}

func (m *Machine) libModel(pkg, name string, fn *ssa.Function, args []Value) (Value, bool) {
	switch name {
	case "internal/abi.NoEscape", "strings.noescape", "internal/abi.Escape":
		return args[0], true
	case "(*strings.Builder).String":
		st := args[0].(Ptr).C.V.(*Struct)
		sl := st.F[fieldIndex(fn.Signature.Recv().Type(), "buf")].V.(Slice)
		if sl.Len == 0 {
			return "", true
		}
		return normS(SStr(sliceTerms(sl))), true
	case "strings.Clone", "internal/stringslite.Clone":
		return args[0], true
	case "log.Printf", "log.Println", "log.Print", "(*log.Logger).Printf", "(*log.Logger).Println":
		return nil, true
	case "log.Fatalf", "log.Fatal", "log.Panicf":
		m.goPanic("log.Fatal/Panic called")
	case "fmt.Errorf":
		format, _ := args[0].(string)
		va := m.variadicArgs(args[1])
		if strings.Contains(format, "%w") {
			// find the wrapped error operand
			ai := 0
			for i := 0; i+1 < len(format); i++ {
				if format[i] == '%' {
					if format[i+1] == '%' {
						i++
						continue
					}
					j := i + 1
					for j < len(format) && strings.IndexByte("+-# 0123456789.", format[j]) >= 0 {
						j++
					}
					if j < len(format) && format[j] == 'w' && ai < len(va) {
						if e, ok := va[ai].(Iface); ok && e.T != nil {
							wt := m.prog.ImportedPackage("fmt").Type("wrapError")
							if wt != nil {
								st := zero(wt.Type()).(*Struct)
								st.F[0].V = m.sprintf(format, va)
								st.F[1].V = e
								return Iface{types.NewPointer(wt.Type()), Ptr{m.newCell(st)}}, true
							}
						}
					}
					ai++
					i = j
				}
			}
		}
		return m.errorsNew(m.sprintf(format, va)), true
	case "fmt.Sprintf":
		format, _ := args[0].(string)
		return m.sprintf(format, m.variadicArgs(args[1])), true
	case "fmt.Sprint", "fmt.Sprintln":
		s := ""
		for _, a := range m.variadicArgs(args[0]) {
			s += m.fmtValue(a)
		}
		return s, true
	case "fmt.Println", "fmt.Printf", "fmt.Print", "fmt.Fprintf", "fmt.Fprintln":
		return Tuple{mkI(0, 64), Iface{}}, true
	case "errors.Is":
		return m.errorsIs(args[0].(Iface), args[1].(Iface)), true
	case "runtime.KeepAlive", "runtime.SetFinalizer", "runtime.GC", "runtime.Gosched":
		return nil, true
	case "internal/race.Enable", "internal/race.Disable", "internal/race.Acquire", "internal/race.Release", "internal/race.ReleaseMerge",
		"internal/race.Read", "internal/race.Write", "internal/race.ReadRange", "internal/race.WriteRange":
		return nil, true
	case "strconv.FormatInt", "strconv.FormatUint", "strconv.Itoa":
		t := termOf(args[0])
		if t.C != nil || bvMode {
			return nil, false
		}
		if name != "strconv.Itoa" && cint(args[1]) != 10 {
			return nil, false
		}
		return m.formatDecimal(t), true
	case "strconv.ParseFloat":
		if s, ok := args[0].(string); ok {
			f, err := strconv.ParseFloat(s, cint(args[1]))
			if err != nil {
				return Tuple{mkF(f), m.errorsNew("strconv.ParseFloat: " + err.Error())}, true
			}
			return Tuple{mkF(f), Iface{}}, true
		}
		// symbolic text: nondeterministic (value | error); the value is an arbitrary representative
		d := m.pureFork(3)
		switch d {
		case 0:
			return Tuple{mkF(1.5), Iface{}}, true
		case 1:
			return Tuple{mkF(0), Iface{}}, true
		}
		return Tuple{mkF(0), m.errorsNew("strconv.ParseFloat: parsing: invalid syntax")}, true
	case "strconv.FormatFloat":
		if f, ok := concreteFloat(args[0]); ok {
			return strconv.FormatFloat(f, byte(cint(args[1])), cint(args[2]), cint(args[3])), true
		}
		unsupported("strconv.FormatFloat of symbolic float")
	case "strconv.AppendFloat":
		if f, ok := concreteFloat(args[1]); ok {
			s := strconv.FormatFloat(f, byte(cint(args[2])), cint(args[3]), cint(args[4]))
			dst := args[0].(Slice)
			bs := append(sliceTerms(dst), asS(s)...)
			return bytesToSlice(bs), true
		}
		unsupported("strconv.AppendFloat of symbolic float")
	case "crypto/rand.Read":
		s := args[0].(Slice)
		for k := 0; k < s.Len; k++ {
			s.A.at(s.Off + k).V = mkU(uint64(0xa0+k), 8)
		}
		return Tuple{mkI(int64(s.Len), 64), Iface{}}, true
	case "(net/http.Header).Set":
		h := args[0].(*Map)
		m.mapSet(h, args[1], bytesToStringSlice([]Value{args[2]}))
		return nil, true
	case "(net/http.Header).Add":
		h := args[0].(*Map)
		old, ok := m.mapGet(h, args[1])
		var vals []Value
		if ok {
			s := old.(Slice)
			for i := 0; i < s.Len; i++ {
				vals = append(vals, s.A.at(s.Off+i).V)
			}
		}
		vals = append(vals, args[2])
		m.mapSet(h, args[1], bytesToStringSlice(vals))
		return nil, true
	case "(net/http.Header).Get":
		h, _ := args[0].(*Map)
		if h == nil {
			return "", true
		}
		old, ok := m.mapGet(h, args[1])
		if !ok {
			return "", true
		}
		s := old.(Slice)
		if s.Len == 0 {
			return "", true
		}
		return s.A.at(s.Off).V, true
	case "(net/http.Header).Del":
		return nil, true
	case "unicode/utf8.ValidString", "unicode/utf8.Valid":
		if s, ok := args[0].(string); ok {
			return mkBool(utf8ValidString(s)), true
		}
		return nil, false
	case "unicode/utf8.RuneCountInString":
		if s, ok := args[0].(string); ok {
			return mkI(int64(len([]rune(s))), 64), true
		}
		return nil, false
	case "time.Now":
		unsupported("time.Now reached without a harness stub")
	case "(time.Time).Add", "(time.Time).Sub", "(time.Time).Equal", "(time.Time).Before", "(time.Time).After":
		if r, ok := m.timeModel(name, args); ok {
			return r, true
		}
		return nil, false
	case "time.initLocal":
		return nil, true // the local zone behaves as UTC
	case "time.Sleep":
		m.yieldPoint("sleep")
		return nil, true
	case "time.runtimeNano":
		return mkI(1000000, 64), true
	case "time.now":
		unsupported("runtime clock reached without a harness stub (%s)", name)
	case "reflect.TypeOf", "internal/reflectlite.TypeOf":
		unsupported("reflection (%s) @ %s", name, m.where())
	}
	return nil, false
}

func utf8ValidString(s string) bool {
	for _, r := range s {
		if r == 0xFFFD {
			// could be a literal U+FFFD; accept conservative check
			return strings.ToValidUTF8(s, "") == s
		}
	}
	return true
}

func bytesToStringSlice(vals []Value) Slice {
	a := newArray(len(vals), types.Typ[types.String])
	for i, v := range vals {
		a.E[i] = &Cell{V: v}
	}
	return Slice{a, 0, len(vals), len(vals)}
}

func (m *Machine) mapGet(mp *Map, k Value) (Value, bool) {
	for i, kk := range mp.K {
		if m.keyEq(kk, k) {
			return mp.V[i].V, true
		}
	}
	return nil, false
}

func (m *Machine) mapSet(mp *Map, k, v Value) {
	if mp == nil {
		m.goPanic("assignment to entry in nil map")
	}
	for i, kk := range mp.K {
		if m.keyEq(kk, k) {
			mp.V[i].V = v
			return
		}
	}
	mp.K = append(mp.K, k)
	mp.V = append(mp.V, &Cell{V: v})
}

// errorsIs models errors.Is without reflection: identity, Is(target) methods and Unwrap chains.
func (m *Machine) errorsIs(err, target Iface) Value {
	for depth := 0; depth < 16; depth++ {
		if err.T == nil {
			return mkBool(target.T == nil)
		}
		if target.T != nil && types.Identical(err.T, target.T) {
			if types.Comparable(err.T) {
				e := m.valEq(err.V, target.V)
				if m.branch(e) {
					return tTrue
				}
			}
		}
		if im := m.lookupMethod(err.T, "Is"); im != nil && im.Signature.Params().Len() == 1 {
			r := m.call(im, []Value{err.V, target}, nil).(*Term)
			if m.branch(r) {
				return tTrue
			}
		}
		um := m.lookupMethod(err.T, "Unwrap")
		if um == nil || um.Signature.Results().Len() != 1 {
			return tFalse
		}
		res := m.call(um, []Value{err.V}, nil)
		next, ok := res.(Iface)
		if !ok {
			return tFalse // Unwrap() []error not modelled
		}
		err = next
	}
	return tFalse
}

var _ = big.NewInt

// formatDecimal renders a symbolic integer as decimal text: forks on sign and digit count,
// each digit is the term 48 + (v div 10^k) mod 10.
func (m *Machine) formatDecimal(v *Term) Value {
	neg := false
	if !(v.Lo != nil && v.Lo.Sign() >= 0) {
		if m.branch(tCmp("lt", v, mkI(0, v.W), true)) {
			neg = true
			v = m.nameTerm(rawSub(mkI(0, v.W), v))
		} else {
			c := *v
			c.Lo = big0
			v = &c
		}
	}
	maxDigits := 20
	if v.Hi != nil {
		maxDigits = len(v.Hi.String())
	}
	var conds []*Term
	p := big.NewInt(10)
	for n := 1; n <= maxDigits; n++ {
		hi := tCmp("lt", v, mkConst(new(big.Int).Set(p), v.W), true)
		if n == maxDigits {
			hi = tTrue
		}
		lo := tTrue
		if n > 1 {
			lo = tCmp("ge", v, mkConst(new(big.Int).Quo(p, big.NewInt(10)), v.W), true)
		}
		conds = append(conds, tAnd(lo, hi))
		p = new(big.Int).Mul(p, big.NewInt(10))
	}
	n := 1 + m.decide(conds)
	out := make(SStr, 0, n+1)
	if neg {
		out = append(out, mkU('-', 8))
	}
	for k := n - 1; k >= 0; k-- {
		d := pow10(k)
		var q *Term
		if k == 0 {
			q = v
		} else {
			q = &Term{S: "(div " + v.S + " " + d.String() + ")", K: KInt, W: 8}
		}
		dig := &Term{S: "(+ 48 (mod " + q.S + " 10))", K: KInt, W: 8, Lo: big.NewInt(48), Hi: big.NewInt(57)}
		out = append(out, m.nameTerm(dig))
	}
	return out
}

func pow10(k int) *big.Int { return new(big.Int).Exp(big.NewInt(10), big.NewInt(int64(k)), nil) }

// ---- time.Time arithmetic on wall-clock-only values (no monotonic reading) ----
// A time.Time is {wall uint64, ext int64, loc}; without the monotonic flag, wall holds the
// nanoseconds (< 2^30) and ext the seconds since year 1. The models below are the normalised
// form of the library's Add/Sub/Equal/Before/After for such values (int mode).

func wallOnly(t *Term) bool {
	if t.C != nil {
		return t.C.BitLen() <= 30
	}
	return t.Lo != nil && t.Lo.Sign() >= 0 && t.Hi != nil && t.Hi.BitLen() <= 30
}

func (m *Machine) timeParts(v Value) (st *Struct, wall, ext *Term, ok bool) {
	st, isS := v.(*Struct)
	if !isS || len(st.F) != 3 {
		return nil, nil, nil, false
	}
	wall, ok1 := st.F[0].V.(*Term)
	ext, ok2 := st.F[1].V.(*Term)
	if !ok1 || !ok2 || !wallOnly(wall) {
		return nil, nil, nil, false
	}
	return st, wall, ext, true
}

func (m *Machine) timeModel(name string, args []Value) (Value, bool) {
	if bvMode {
		return nil, false
	}
	st, wall, ext, ok := m.timeParts(args[0])
	if !ok {
		return nil, false
	}
	e9 := mkI(1000000000, 64)
	switch name {
	case "(time.Time).Add":
		d := args[1].(*Term)
		if wall.C != nil && ext.C != nil && d.C != nil {
			return nil, false // concrete: run the library code
		}
		// q = floor(d / 1e9), r = d - q*1e9 in [0, 1e9)
		q := &Term{S: "(div " + d.S + " 1000000000)", K: KInt, W: 64}
		r := &Term{S: "(mod " + d.S + " 1000000000)", K: KInt, W: 64, Lo: big0, Hi: big.NewInt(999999999)}
		if d.C != nil {
			qq := new(big.Int).Div(d.C, e9.C)
			rr := new(big.Int).Mod(d.C, e9.C)
			q, r = mkConst(qq, 64), mkConst(rr, 64)
		} else {
			if d.Lo != nil {
				q.Lo = new(big.Int).Div(d.Lo, e9.C)
			}
			if d.Hi != nil {
				q.Hi = new(big.Int).Div(d.Hi, e9.C)
			}
		}
		ns := rawAdd(wall, r)
		carry := tCmp("ge", ns, e9, true)
		newNs := m.nameTerm(tIte(carry, rawSub(ns, e9), ns))
		newNs.Lo, newNs.Hi = big0, big.NewInt(999999999)
		newNs.W = 64
		sec := rawAdd(rawAdd(ext, q), tIte(carry, mkI(1, 64), mkI(0, 64)))
		lo, hi := typeRange(64, true)
		if sec.Lo == nil || sec.Hi == nil || sec.Lo.Cmp(lo) < 0 || sec.Hi.Cmp(hi) > 0 {
			return nil, false // possible saturation: leave it to the library code
		}
		res := copyVal(st).(*Struct)
		res.F[0].V = newNs
		res.F[1].V = m.nameTerm(sec)
		return res, true
	case "(time.Time).Sub", "(time.Time).Equal", "(time.Time).Before", "(time.Time).After":
		_, wall2, ext2, ok2 := m.timeParts(args[1])
		if !ok2 {
			return nil, false
		}
		if wall.C != nil && ext.C != nil && wall2.C != nil && ext2.C != nil {
			return nil, false
		}
		switch name {
		case "(time.Time).Equal":
			return tAnd(tEq(ext, ext2), tEq(wall, wall2)), true
		case "(time.Time).Before":
			return tOr(tCmp("lt", ext, ext2, true), tAnd(tEq(ext, ext2), tCmp("lt", wall, wall2, true))), true
		case "(time.Time).After":
			return tOr(tCmp("gt", ext, ext2, true), tAnd(tEq(ext, ext2), tCmp("gt", wall, wall2, true))), true
		}
		d := rawAdd(rawMul(rawSub(ext, ext2), e9), rawSub(wall, wall2))
		lo, hi := typeRange(64, true)
		if d.Lo != nil && d.Hi != nil && d.Lo.Cmp(lo) >= 0 && d.Hi.Cmp(hi) <= 0 {
			return m.nameTerm(d), true
		}
		// saturating
		d = m.nameTerm(d)
		sat := tIte(tCmp("gt", d, mkConst(hi, 64), true), mkConst(hi, 64), tIte(tCmp("lt", d, mkConst(lo, 64), true), mkConst(lo, 64), d))
		sat.Lo, sat.Hi = lo, hi
		return m.nameTerm(sat), true
	}
	return nil, false
}

// lookupMethod returns the exported method name of type t, or nil when t has no such method.
func (m *Machine) lookupMethod(t types.Type, name string) *ssa.Function {
	sel := m.prog.MethodSets.MethodSet(t).Lookup(nil, name)
	if sel == nil {
		return nil
	}
	return m.prog.MethodValue(sel)
}
