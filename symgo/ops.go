package main

import (
	"fmt"
	"go/token"
	"go/types"
	"math"
	"math/big"

	"golang.org/x/tools/go/ssa"
)

// wrap brings a raw (mathematical) int-mode result into the typed range, forking when
// overflow is feasible so that Go's wrap-around semantics stay exact.
func (m *Machine) wrap(r *Term, w int, signed bool) *Term {
	lo, hi := typeRange(w, signed)
	if r.C != nil {
		return mkConst(wrapConst(r.C, w, signed), w)
	}
	r.W = w
	if r.Lo != nil && r.Hi != nil && r.Lo.Cmp(lo) >= 0 && r.Hi.Cmp(hi) <= 0 {
		return m.nameTerm(r)
	}
	r = m.nameTerm(r)
	in := tAnd(tCmpRaw("le", mkConst(lo, w), r), tCmpRaw("le", r, mkConst(hi, w)))
	if m.decide2(in, tNot(in)) == 0 {
		c := *r
		c.Lo, c.Hi = maxNil(r.Lo, lo), minNil(r.Hi, hi)
		return &c
	}
	// wrapped: ((r - lo) mod 2^w) + lo
	s := fmt.Sprintf("(+ (mod (- %s %s) %s) %s)", r.S, intLit(lo), pow2(w).String(), intLit(lo))
	return m.nameTerm(&Term{S: s, K: KInt, W: w, Lo: lo, Hi: hi})
}

func maxNil(a, b *big.Int) *big.Int {
	if a == nil {
		return b
	}
	return maxB(a, b)
}
func minNil(a, b *big.Int) *big.Int {
	if a == nil {
		return b
	}
	return minB(a, b)
}

// tCmpRaw compares without interval folding shortcuts that assume typed ranges.
func tCmpRaw(op string, a, b *Term) *Term { return tCmp(op, a, b, true) }

// resize converts an integer between Go integer types.
func (m *Machine) resize(t *Term, fw int, fs bool, tw int, ts bool) *Term {
	if bvMode {
		return bvResize(t, fw, tw, fs)
	}
	if t.C != nil {
		return mkConst(wrapConst(t.C, tw, ts), tw)
	}
	c := *t
	c.W = tw
	return m.wrap(&c, tw, ts)
}

func (m *Machine) arith(op token.Token, x, y *Term, w int, signed bool) *Term {
	if bvMode {
		switch op {
		case token.ADD:
			return bvOp("add", x, y, signed)
		case token.SUB:
			return bvOp("sub", x, y, signed)
		case token.MUL:
			return bvOp("mul", x, y, signed)
		case token.QUO:
			return bvOp("div", x, y, signed)
		case token.REM:
			return bvOp("rem", x, y, signed)
		case token.AND:
			return bvOp("and", x, y, signed)
		case token.OR:
			return bvOp("or", x, y, signed)
		case token.XOR:
			return bvOp("xor", x, y, signed)
		case token.AND_NOT:
			return bvOp("andnot", x, y, signed)
		}
		panic("arith bv " + op.String())
	}
	switch op {
	case token.ADD:
		return m.wrap(rawAdd(x, y), w, signed)
	case token.SUB:
		return m.wrap(rawSub(x, y), w, signed)
	case token.MUL:
		return m.wrap(rawMul(x, y), w, signed)
	case token.QUO:
		return m.wrap(rawDiv(x, y), w, signed) // only MinInt / -1 overflows
	case token.REM:
		return m.nameTerm(rawRem(x, y))
	case token.AND, token.OR, token.XOR, token.AND_NOT:
		return m.bitop(op, x, y, w, signed)
	}
	panic("arith " + op.String())
}

func isPow2Minus1(c *big.Int) (int, bool) {
	if c.Sign() < 0 {
		return 0, false
	}
	p := new(big.Int).Add(c, big1)
	if new(big.Int).And(p, c).Sign() == 0 {
		return p.BitLen() - 1, true
	}
	return 0, false
}

// bitop lowers bitwise operations to integer arithmetic (int mode).
func (m *Machine) bitop(op token.Token, x, y *Term, w int, signed bool) *Term {
	if x.C != nil && y.C != nil {
		a := new(big.Int).Mod(x.C, pow2(w))
		b := new(big.Int).Mod(y.C, pow2(w))
		r := new(big.Int)
		switch op {
		case token.AND:
			r.And(a, b)
		case token.OR:
			r.Or(a, b)
		case token.XOR:
			r.Xor(a, b)
		case token.AND_NOT:
			r.AndNot(a, b)
		}
		return mkConst(wrapConst(r, w, signed), w)
	}
	if x.C != nil && op != token.AND_NOT {
		x, y = y, x
	}
	if y.C != nil {
		c := new(big.Int).Mod(y.C, pow2(w)) // two's complement pattern of the constant
		switch op {
		case token.AND:
			if c.Sign() == 0 {
				return mkI(0, w)
			}
			// no bit of the constant can be set in x (x is small and non-negative)
			if x.Lo != nil && x.Lo.Sign() >= 0 && x.Hi != nil && c.TrailingZeroBits() >= uint(x.Hi.BitLen()) {
				return mkI(0, w)
			}
			if k, ok := isPow2Minus1(c); ok {
				if k >= w {
					return x
				}
				return m.nameTerm(rawModPow2(x, k))
			}
			// contiguous run of ones: ((x div 2^lo) mod 2^n) * 2^lo
			loBit := int(c.TrailingZeroBits())
			sh := new(big.Int).Rsh(c, uint(loBit))
			if n, ok := isPow2Minus1(sh); ok {
				xm := rawModPow2(x, w)
				t := rawModPow2(rawFloorDivPow2(xm, loBit), n)
				r := rawMul(t, mkConst(pow2(loBit), w))
				return m.wrap(r, w, signed)
			}
		case token.AND_NOT:
			nc := new(big.Int).Xor(c, mask(w))
			return m.bitop(token.AND, x, mkConst(wrapConst(nc, w, signed), w), w, signed)
		case token.OR, token.XOR:
			if c.Sign() == 0 {
				return x
			}
		}
		// generic constant case: bit by bit over the set bits of c (cheap for byte-sized values)
		if w <= 16 || c.BitLen() <= 16 {
			xm := rawModPow2(x, w)
			var acc *Term
			switch op {
			case token.AND:
				acc = mkI(0, w)
				for i := 0; i < c.BitLen(); i++ {
					if c.Bit(i) == 1 {
						acc = rawAdd(acc, rawMul(rawBit(xm, i), mkConst(pow2(i), w)))
					}
				}
			case token.OR:
				acc = xm
				for i := 0; i < c.BitLen(); i++ {
					if c.Bit(i) == 1 {
						acc = rawAdd(acc, rawMul(rawSub(mkI(1, w), rawBit(xm, i)), mkConst(pow2(i), w)))
					}
				}
			case token.XOR:
				acc = xm
				for i := 0; i < c.BitLen(); i++ {
					if c.Bit(i) == 1 {
						// flip bit i: +2^i if clear, -2^i if set
						acc = rawAdd(acc, rawMul(rawSub(mkI(1, w), rawMul(mkI(2, w), rawBit(xm, i))), mkConst(pow2(i), w)))
					}
				}
			}
			if acc != nil {
				acc.Lo, acc.Hi = big0, mask(w)
				if signed {
					return m.wrap(acc, w, signed)
				}
				return m.nameTerm(acc)
			}
		}
		unsupported("int mode: bit operation %s with constant %s on a %d-bit symbolic value @ %s", op, c, w, m.where())
	}
	if w <= 8 {
		xm, ym := rawModPow2(x, w), rawModPow2(y, w)
		acc := mkI(0, w)
		for i := 0; i < w; i++ {
			bx, by := rawBit(xm, i), rawBit(ym, i)
			var bit *Term
			switch op {
			case token.AND:
				bit = rawMul(bx, by)
			case token.OR:
				bit = rawSub(rawAdd(bx, by), rawMul(bx, by))
			case token.XOR:
				bit = rawSub(rawAdd(bx, by), rawMul(mkI(2, w), rawMul(bx, by)))
			case token.AND_NOT:
				bit = rawSub(bx, rawMul(bx, by))
			}
			acc = rawAdd(acc, rawMul(bit, mkConst(pow2(i), w)))
		}
		acc.Lo, acc.Hi = big0, mask(w)
		if signed {
			return m.wrap(acc, w, signed)
		}
		return m.nameTerm(acc)
	}
	if op == token.AND && nonNeg(x) && nonNeg(y) && x.Hi != nil && y.Hi != nil {
		// sound over-approximation: 0 <= x&y <= min(x,y) (a fresh value constrained that way)
		r := m.declareInt("and", w, signed, big0, minB(x.Hi, y.Hi))
		m.sol.Send("(assert (and (<= " + r.S + " " + x.S + ") (<= " + r.S + " " + y.S + ")))")
		m.nondets = m.nondets[:len(m.nondets)-1] // internal: not a harness input
		return r
	}
	unsupported("int mode: bit operation %s on two symbolic %d-bit values (use bv mode) @ %s", op, w, m.where())
	return nil
}

func (m *Machine) shift(op token.Token, x, y *Term, w int, signed bool, yType types.Type) *Term {
	if bvMode {
		yy := y
		if y.W != x.W {
			yw, ys, _ := intInfo(yType)
			_ = ys
			if y.W > x.W {
				// saturate: shifts >= w give 0 / sign; keep exact by comparing
				big := tCmp("ge", y, mkU(uint64(w), yw), false)
				yy = tIte(big, mkU(uint64(w), x.W), bvResize(y, yw, x.W, false))
			} else {
				yy = bvResize(y, yw, x.W, false)
			}
		}
		if op == token.SHL {
			return bvOp("shl", x, yy, signed)
		}
		return bvOp("shr", x, yy, signed)
	}
	var k int
	if y.C != nil {
		if y.C.Sign() < 0 {
			m.goPanic("negative shift amount")
		}
		if !y.C.IsInt64() || y.C.Int64() >= int64(w) {
			k = w
		} else {
			k = int(y.C.Int64())
		}
	} else {
		_, ys, _ := intInfo(yType)
		if ys {
			m.panicIf(tCmp("lt", y, mkI(0, y.W), true), "negative shift amount")
		}
		big := tCmp("ge", y, mkI(int64(w), y.W), true)
		if m.branch(big) {
			k = w
		} else {
			k = m.concretize(y, 0, w-1, "shift amount")
		}
	}
	if op == token.SHL {
		if k >= w {
			return mkI(0, w)
		}
		return m.wrap(rawMul(x, mkConst(pow2(k), w)), w, signed)
	}
	if k >= w {
		if signed {
			// all sign bits
			return m.nameTerm(tIte(tCmp("lt", x, mkI(0, w), true), mkI(-1, w), mkI(0, w)))
		}
		return mkI(0, w)
	}
	return m.nameTerm(rawFloorDivPow2(x, k))
}

func (m *Machine) unop(fr *frame, x *ssa.UnOp) Value {
	v := m.get(fr, x.X)
	switch x.Op {
	case token.MUL:
		if sp, ok := v.(SymPtr); ok {
			return m.symLoad(sp)
		}
		return m.load(v.(Ptr), "")
	case token.NOT:
		return tNot(v.(*Term))
	case token.SUB:
		t := v.(*Term)
		if t.K == KFP {
			if t.FC != nil {
				return mkF(-*t.FC)
			}
			return &Term{S: "(fp.neg " + t.S + ")", K: KFP}
		}
		w, signed, _ := intInfo(x.X.Type())
		if bvMode {
			return bvOp("sub", mkU(0, w), t, signed)
		}
		return m.wrap(rawSub(mkI(0, w), t), w, signed)
	case token.XOR:
		t := v.(*Term)
		w, signed, _ := intInfo(x.X.Type())
		if bvMode {
			return bvOp("xor", t, mkConst(mask(w), w), false)
		}
		// ^x = -x-1 (signed) ; 2^w-1-x (unsigned)
		if signed {
			return m.wrap(rawSub(rawSub(mkI(0, w), t), mkI(1, w)), w, true)
		}
		return m.nameTerm(rawSub(mkConst(mask(w), w), t))
	case token.ARROW:
		ch, _ := v.(*Chan)
		val, ok := m.chanRecv(ch)
		if x.CommaOk {
			return Tuple{val, mkBool(ok)}
		}
		return val
	}
	unsupported("unop %s", x.Op)
	return nil
}

func (m *Machine) binop(op token.Token, a, b Value, t types.Type, yt types.Type) Value {
	switch x := a.(type) {
	case *Term:
		y, ok := b.(*Term)
		if !ok {
			unsupported("binop %s on Term and %T", op, b)
		}
		if x.K == KBool {
			switch op {
			case token.EQL:
				return tEq(x, y)
			case token.NEQ:
				return tNot(tEq(x, y))
			case token.AND:
				return tAnd(x, y)
			case token.OR:
				return tOr(x, y)
			}
		}
		if x.K == KFP {
			return m.fpBin(op, x, y)
		}
		w, signed, _ := intInfo(t)
		switch op {
		case token.ADD, token.SUB, token.MUL, token.AND, token.OR, token.XOR, token.AND_NOT:
			return m.arith(op, x, y, w, signed)
		case token.QUO, token.REM:
			m.panicIf(tEq(y, mkU(0, y.W)), "integer divide by zero")
			if !bvMode && y.C == nil && y.Lo != nil && y.Lo.Sign() == 0 {
				// the divisor is known non-zero on this path: tighten its interval (keeps the quotient linear-friendly)
				c := *y
				c.Lo = big1
				y = &c
			}
			return m.arith(op, x, y, w, signed)
		case token.SHL, token.SHR:
			return m.shift(op, x, y, w, signed, yt)
		case token.EQL:
			return tEq(x, y)
		case token.NEQ:
			return tNot(tEq(x, y))
		case token.LSS:
			return tCmp("lt", x, y, signed)
		case token.LEQ:
			return tCmp("le", x, y, signed)
		case token.GTR:
			return tCmp("gt", x, y, signed)
		case token.GEQ:
			return tCmp("ge", x, y, signed)
		}
	case SStr:
		return m.strBin(op, x, asS(b))
	case string:
		if yy, ok := b.(SStr); ok {
			return m.strBin(op, asS(x), yy)
		}
		y := b.(string)
		switch op {
		case token.ADD:
			return x + y
		case token.EQL:
			return mkBool(x == y)
		case token.NEQ:
			return mkBool(x != y)
		case token.LSS:
			return mkBool(x < y)
		case token.LEQ:
			return mkBool(x <= y)
		case token.GTR:
			return mkBool(x > y)
		case token.GEQ:
			return mkBool(x >= y)
		}
	case Ptr:
		y := b.(Ptr)
		switch op {
		case token.EQL:
			return mkBool(x.C == y.C)
		case token.NEQ:
			return mkBool(x.C != y.C)
		}
	case Iface:
		y, ok := b.(Iface)
		if !ok {
			y = Iface{}
		}
		e := m.ifaceEq(x, y)
		switch op {
		case token.EQL:
			return e
		case token.NEQ:
			return tNot(e)
		}
	case Slice: // only nil compare
		switch op {
		case token.EQL:
			return mkBool(x.A == nil)
		case token.NEQ:
			return mkBool(x.A != nil)
		}
	case *Closure:
		switch op {
		case token.EQL:
			return mkBool(x == nil)
		case token.NEQ:
			return mkBool(x != nil)
		}
	case *Chan:
		y, _ := b.(*Chan)
		switch op {
		case token.EQL:
			return mkBool(x == y)
		case token.NEQ:
			return mkBool(x != y)
		}
	case *Map:
		switch op {
		case token.EQL:
			return mkBool(x == nil)
		case token.NEQ:
			return mkBool(x != nil)
		}
	case *Struct, *Array:
		e := m.valEq(a, b)
		switch op {
		case token.EQL:
			return e
		case token.NEQ:
			return tNot(e)
		}
	case nil:
		switch op {
		case token.EQL:
			return mkBool(b == nil)
		case token.NEQ:
			return mkBool(b != nil)
		}
	}
	unsupported("binop %s on %T @ %s", op, a, m.where())
	return nil
}

func (m *Machine) fpBin(op token.Token, x, y *Term) Value {
	if x.FC != nil && y.FC != nil {
		a, b := *x.FC, *y.FC
		switch op {
		case token.ADD:
			return mkF(a + b)
		case token.SUB:
			return mkF(a - b)
		case token.MUL:
			return mkF(a * b)
		case token.QUO:
			return mkF(a / b)
		case token.EQL:
			return mkBool(a == b)
		case token.NEQ:
			return mkBool(a != b)
		case token.LSS:
			return mkBool(a < b)
		case token.LEQ:
			return mkBool(a <= b)
		case token.GTR:
			return mkBool(a > b)
		case token.GEQ:
			return mkBool(a >= b)
		}
	}
	f := func(o string) *Term { return &Term{S: "(" + o + " RNE " + x.S + " " + y.S + ")", K: KFP} }
	switch op {
	case token.ADD:
		return f("fp.add")
	case token.SUB:
		return f("fp.sub")
	case token.MUL:
		return f("fp.mul")
	case token.QUO:
		return f("fp.div")
	case token.EQL:
		return tEq(x, y)
	case token.NEQ:
		return tNot(tEq(x, y))
	case token.LSS:
		return tCmp("lt", x, y, true)
	case token.LEQ:
		return tCmp("le", x, y, true)
	case token.GTR:
		return tCmp("gt", x, y, true)
	case token.GEQ:
		return tCmp("ge", x, y, true)
	}
	unsupported("float op %s", op)
	return nil
}

func (m *Machine) strBin(op token.Token, x, y SStr) Value {
	switch op {
	case token.ADD:
		return normS(append(append(SStr{}, x...), y...))
	case token.EQL:
		return strEq(x, y)
	case token.NEQ:
		return tNot(strEq(x, y))
	case token.LSS, token.LEQ, token.GTR, token.GEQ:
		// lexicographic comparison
		lt, eq := tFalse, tTrue
		n := len(x)
		if len(y) < n {
			n = len(y)
		}
		for k := 0; k < n; k++ {
			lt = tOr(lt, tAnd(eq, tCmp("lt", x[k], y[k], false)))
			eq = tAnd(eq, tEq(x[k], y[k]))
		}
		if len(x) < len(y) {
			lt = tOr(lt, eq)
			eq = tFalse
		} else if len(x) > len(y) {
			eq = tFalse
		}
		switch op {
		case token.LSS:
			return lt
		case token.LEQ:
			return tOr(lt, eq)
		case token.GTR:
			return tNot(tOr(lt, eq))
		default:
			return tNot(lt)
		}
	}
	unsupported("string op %s on symbolic strings", op)
	return nil
}

func (m *Machine) convert(v Value, from, to types.Type) Value {
	if fw, fs, ok := intInfo(from); ok {
		t := v.(*Term)
		if tw, ts, ok2 := intInfo(to); ok2 {
			return m.resize(t, fw, fs, tw, ts)
		}
		if isFloat(to) {
			if t.C != nil {
				f, _ := new(big.Float).SetInt(t.val(fs)).Float64()
				if b := to.Underlying().(*types.Basic); b.Kind() == types.Float32 {
					f = float64(float32(f))
				}
				return mkF(f)
			}
			if bvMode {
				opn := "to_fp_unsigned"
				if fs {
					opn = "to_fp"
				}
				return &Term{S: "((_ " + opn + " 11 53) RNE " + t.S + ")", K: KFP}
			}
			unsupported("int->float conversion of a symbolic value in int mode @ %s", m.where())
		}
		if isString(to) {
			if t.C != nil {
				return string(rune(t.Int64()))
			}
			unsupported("int->string conversion of symbolic value")
		}
	}
	if isFloat(from) {
		t := v.(*Term)
		if tw, ts, ok2 := intInfo(to); ok2 {
			if t.FC != nil {
				f := *t.FC
				if math.IsNaN(f) || math.IsInf(f, 0) {
					return mkI(math.MinInt64, tw)
				}
				bf := new(big.Float).SetFloat64(math.Trunc(f))
				bi, _ := bf.Int(nil)
				return mkConst(wrapConst(bi, tw, ts), tw)
			}
			if bvMode {
				opn := "fp.to_ubv"
				if ts {
					opn = "fp.to_sbv"
				}
				return &Term{S: fmt.Sprintf("((_ %s %d) RTZ %s)", opn, tw, t.S), K: KInt, W: tw}
			}
			unsupported("float->int conversion of symbolic value in int mode")
		}
		if isFloat(to) {
			if t.FC != nil {
				if b := to.Underlying().(*types.Basic); b.Kind() == types.Float32 {
					return mkF(float64(float32(*t.FC)))
				}
			}
			return t
		}
	}
	if isString(from) && isString(to) {
		return v
	}
	if _, ok := v.(SStr); ok && isString(to) {
		return v
	}
	if _, ok := to.Underlying().(*types.Pointer); ok {
		return v
	}
	if b, ok := to.Underlying().(*types.Basic); ok && b.Kind() == types.UnsafePointer {
		return v
	}
	if sl, ok := from.Underlying().(*types.Slice); ok && isString(to) {
		s := v.(Slice)
		if b, ok := sl.Elem().Underlying().(*types.Basic); ok && b.Kind() == types.Int32 {
			// []rune -> string (concrete only)
			rs := make([]rune, s.Len)
			for k := 0; k < s.Len; k++ {
				t := s.A.at(s.Off + k).V.(*Term)
				if t.C == nil {
					unsupported("[]rune->string with symbolic runes")
				}
				rs[k] = rune(t.Int64())
			}
			return string(rs)
		}
		if s.Len == 0 {
			return ""
		}
		return normS(SStr(sliceTerms(s)))
	}
	if sl, ok := to.Underlying().(*types.Slice); ok && isString(from) {
		if b, ok := sl.Elem().Underlying().(*types.Basic); ok && b.Kind() == types.Int32 {
			str, ok := v.(string)
			if !ok {
				unsupported("symbolic string -> []rune")
			}
			rs := []rune(str)
			a := newArray(len(rs), sl.Elem())
			for i, r := range rs {
				a.E[i] = &Cell{V: mkI(int64(r), 32)}
			}
			return Slice{a, 0, len(rs), len(rs)}
		}
		str := asS(v)
		a := newArray(len(str), sl.Elem())
		for i := 0; i < len(str); i++ {
			a.E[i] = &Cell{V: str[i]}
		}
		return Slice{a, 0, len(str), len(str)}
	}
	unsupported("convert %s -> %s @ %s", from, to, m.where())
	return nil
}

func (m *Machine) builtin(b *ssa.Builtin, cc *ssa.CallCommon, args []Value) Value {
	switch b.Name() {
	case "len":
		switch x := args[0].(type) {
		case Slice:
			return mkI(int64(x.Len), 64)
		case string:
			return mkI(int64(len(x)), 64)
		case SStr:
			return mkI(int64(len(x)), 64)
		case *Map:
			if x == nil {
				return mkI(0, 64)
			}
			return mkI(int64(len(x.K)), 64)
		case *Chan:
			if x == nil {
				return mkI(0, 64)
			}
			return mkI(int64(len(x.Buf)), 64)
		case *Array:
			return mkI(int64(len(x.E)), 64)
		case Ptr:
			return mkI(int64(len(x.C.V.(*Array).E)), 64)
		}
	case "cap":
		switch x := args[0].(type) {
		case Slice:
			return mkI(int64(x.Cap), 64)
		case *Chan:
			if x == nil {
				return mkI(0, 64)
			}
			return mkI(int64(x.Cap), 64)
		case *Array:
			return mkI(int64(len(x.E)), 64)
		}
	case "append":
		s := args[0].(Slice)
		var add []Value
		switch t := args[1].(type) {
		case Slice:
			for i := 0; i < t.Len; i++ {
				add = append(add, copyVal(t.A.at(t.Off+i).V))
			}
		case string:
			for i := 0; i < len(t); i++ {
				add = append(add, mkU(uint64(t[i]), 8))
			}
		case SStr:
			for _, c := range t {
				add = append(add, c)
			}
		}
		if len(add) == 0 {
			return s
		}
		if s.Len+len(add) <= s.Cap {
			for i, v := range add {
				storeInto(s.A.at(s.Off+s.Len+i), v)
			}
			return Slice{s.A, s.Off, s.Len + len(add), s.Cap}
		}
		et := cc.Args[0].Type().Underlying().(*types.Slice).Elem()
		n := s.Len + len(add)
		ncap := n
		if s.Len > 0 || true {
			// growth similar to Go's: double small slices
			d := 2 * s.Cap
			if d > ncap {
				ncap = d
			}
			if ncap > n+1024 {
				ncap = n + 1024
			}
		}
		na := newArray(ncap, et)
		for i := 0; i < s.Len; i++ {
			na.E[i] = &Cell{V: copyVal(s.A.at(s.Off + i).V)}
		}
		for i, v := range add {
			na.E[s.Len+i] = &Cell{V: v}
		}
		return Slice{na, 0, n, ncap}
	case "copy":
		d := args[0].(Slice)
		n := 0
		switch s := args[1].(type) {
		case Slice:
			n = d.Len
			if s.Len < n {
				n = s.Len
			}
			tmp := make([]Value, n)
			for k := 0; k < n; k++ {
				tmp[k] = copyVal(s.A.at(s.Off + k).V)
			}
			for k := 0; k < n; k++ {
				storeInto(d.A.at(d.Off+k), tmp[k])
			}
		case string, SStr:
			ss := asS(s)
			n = d.Len
			if len(ss) < n {
				n = len(ss)
			}
			for k := 0; k < n; k++ {
				d.A.at(d.Off + k).V = ss[k]
			}
		}
		return mkI(int64(n), 64)
	case "close":
		ch, _ := args[0].(*Chan)
		m.chanClose(ch)
		return nil
	case "delete":
		mp := args[0].(*Map)
		if mp == nil {
			return nil
		}
		m.accessMap(mp, true)
		for i, k := range mp.K {
			if m.keyEq(k, args[1]) {
				mp.K = append(mp.K[:i:i], mp.K[i+1:]...)
				mp.V = append(mp.V[:i:i], mp.V[i+1:]...)
				break
			}
		}
		return nil
	case "recover":
		return Iface{}
	case "ssa:wrapnilchk":
		if p, ok := args[0].(Ptr); ok && p.C == nil {
			m.goPanic("value method called using nil pointer")
		}
		return args[0]
	case "min", "max":
		acc := args[0].(*Term)
		_, signed, _ := intInfo(cc.Args[0].Type())
		for _, a := range args[1:] {
			t := a.(*Term)
			if b.Name() == "min" {
				acc = m.nameTerm(tIte(tCmp("lt", t, acc, signed), t, acc))
			} else {
				acc = m.nameTerm(tIte(tCmp("gt", t, acc, signed), t, acc))
			}
		}
		return acc
	case "print", "println":
		return nil
	case "clear":
		if mp, ok := args[0].(*Map); ok && mp != nil {
			mp.K, mp.V = nil, nil
		}
		return nil
	}
	unsupported("builtin %s(%T)", b.Name(), args[0])
	return nil
}
