package main

import (
	"fmt"
	"go/types"
	"math"

	"golang.org/x/tools/go/ssa"
)

func fbits(f float64) uint64 { return math.Float64bits(f) }

// ---------- values ----------

type Value interface{}

type Cell struct {
	V  Value
	ID int // allocation id (debug / race log)
}
type Ptr struct{ C *Cell }
type Struct struct{ F []*Cell }

// SymPtr is the address of an array element whose index is symbolic (bounds already checked):
// a load builds an if-then-else chain over the elements instead of forking.
type SymPtr struct {
	A   *Array
	Off int
	Len int
	Idx *Term
}

// Array is a fixed-size backing store; cells are created lazily (nil = zero value of Elem).
type Array struct {
	E    []*Cell
	Elem types.Type
}

func (a *Array) at(i int) *Cell {
	c := a.E[i]
	if c == nil {
		c = &Cell{V: zero(a.Elem)}
		a.E[i] = c
	}
	return c
}

func newArray(n int, elem types.Type) *Array { return &Array{E: make([]*Cell, n), Elem: elem} }

type Slice struct {
	A             *Array
	Off, Len, Cap int
}
type Iface struct {
	T types.Type
	V Value
}
type Closure struct {
	Fn  *ssa.Function
	Env []Value
}
type Map struct {
	K []Value
	V []*Cell
}
type Tuple []Value

// SStr is a string with at least one symbolic byte (concrete length).
type SStr []*Term

func asS(v Value) SStr {
	switch x := v.(type) {
	case SStr:
		return x
	case string:
		r := make(SStr, len(x))
		for k := 0; k < len(x); k++ {
			r[k] = mkU(uint64(x[k]), 8)
		}
		return r
	}
	panic(fmt.Sprintf("asS %T", v))
}

func normS(s SStr) Value {
	bs := make([]byte, len(s))
	for k, t := range s {
		if t.C == nil {
			return s
		}
		bs[k] = byte(t.C.Uint64())
	}
	return string(bs)
}

func strLen(v Value) int {
	switch x := v.(type) {
	case string:
		return len(x)
	case SStr:
		return len(x)
	}
	panic(fmt.Sprintf("strLen %T", v))
}

func strEq(a, b SStr) *Term {
	if len(a) != len(b) {
		return tFalse
	}
	r := tTrue
	for k := range a {
		e := tEq(a[k], b[k])
		if e.IsConst() && !e.Bool() {
			return tFalse
		}
		r = tAnd(r, e)
	}
	return r
}

type mapIter struct {
	keys []Value
	vals []Value
	i    int
	str  Value // string iteration
	pos  int
}

type pathEnd struct{ kind, msg string }

func unsupported(f string, a ...interface{}) {
	panic(pathEnd{"unsupported", fmt.Sprintf(f, a...)})
}

func intInfo(t types.Type) (w int, signed bool, ok bool) {
	b, isb := t.Underlying().(*types.Basic)
	if !isb {
		return 0, false, false
	}
	switch b.Kind() {
	case types.Int8:
		return 8, true, true
	case types.Int16:
		return 16, true, true
	case types.Int32, types.UntypedRune:
		return 32, true, true
	case types.Int64, types.Int, types.UntypedInt:
		return 64, true, true
	case types.Uint8:
		return 8, false, true
	case types.Uint16:
		return 16, false, true
	case types.Uint32:
		return 32, false, true
	case types.Uint64, types.Uint, types.Uintptr:
		return 64, false, true
	}
	return 0, false, false
}

func isBool(t types.Type) bool {
	b, ok := t.Underlying().(*types.Basic)
	return ok && b.Info()&types.IsBoolean != 0
}
func isString(t types.Type) bool {
	b, ok := t.Underlying().(*types.Basic)
	return ok && b.Info()&types.IsString != 0
}
func isFloat(t types.Type) bool {
	b, ok := t.Underlying().(*types.Basic)
	return ok && b.Info()&types.IsFloat != 0
}

func zero(t types.Type) Value {
	switch u := t.Underlying().(type) {
	case *types.Basic:
		if w, _, ok := intInfo(t); ok {
			return mkU(0, w)
		}
		if isBool(t) {
			return tFalse
		}
		if isString(t) {
			return ""
		}
		if u.Kind() == types.UnsafePointer {
			return Ptr{}
		}
		if isFloat(t) {
			return mkF(0)
		}
		if u.Kind() == types.UntypedNil {
			return nil
		}
		unsupported("zero of %s", t)
	case *types.Pointer:
		return Ptr{}
	case *types.Slice:
		return Slice{}
	case *types.Map:
		return (*Map)(nil)
	case *types.Chan:
		return (*Chan)(nil)
	case *types.Signature:
		return (*Closure)(nil)
	case *types.Interface:
		return Iface{}
	case *types.Struct:
		s := &Struct{F: make([]*Cell, u.NumFields())}
		for i := 0; i < u.NumFields(); i++ {
			s.F[i] = &Cell{V: zero(u.Field(i).Type())}
		}
		return s
	case *types.Array:
		return newArray(int(u.Len()), u.Elem())
	case *types.Tuple:
		var tu Tuple
		for i := 0; i < u.Len(); i++ {
			tu = append(tu, zero(u.At(i).Type()))
		}
		return tu
	}
	unsupported("zero of %s", t)
	return nil
}

func copyVal(v Value) Value {
	switch x := v.(type) {
	case *Struct:
		n := &Struct{F: make([]*Cell, len(x.F))}
		for i, c := range x.F {
			n.F[i] = &Cell{V: copyVal(c.V)}
		}
		return n
	case *Array:
		n := &Array{E: make([]*Cell, len(x.E)), Elem: x.Elem}
		for i, c := range x.E {
			if c != nil {
				n.E[i] = &Cell{V: copyVal(c.V)}
			}
		}
		return n
	}
	return v
}

func storeInto(c *Cell, v Value) {
	switch x := v.(type) {
	case *Struct:
		if d, ok := c.V.(*Struct); ok && len(d.F) == len(x.F) {
			for i := range x.F {
				storeInto(d.F[i], x.F[i].V)
			}
			return
		}
	case *Array:
		if d, ok := c.V.(*Array); ok && len(d.E) == len(x.E) {
			for i := range x.E {
				if x.E[i] == nil {
					if d.E[i] != nil {
						storeInto(d.E[i], zero(x.Elem))
					}
					continue
				}
				storeInto(d.at(i), x.E[i].V)
			}
			return
		}
	}
	c.V = copyVal(v)
}

// sliceTerms returns the elements of a []byte-like slice as terms.
func sliceTerms(s Slice) []*Term {
	r := make([]*Term, s.Len)
	for k := 0; k < s.Len; k++ {
		r[k] = s.A.at(s.Off + k).V.(*Term)
	}
	return r
}

func bytesToSlice(bs []*Term) Slice {
	a := &Array{E: make([]*Cell, len(bs)), Elem: types.Typ[types.Uint8]}
	for i, b := range bs {
		a.E[i] = &Cell{V: b}
	}
	return Slice{a, 0, len(bs), len(bs)}
}
