package main

import (
	"encoding/json"
	"flag"
	"fmt"
	"go/token"
	"os"
	"path/filepath"
	"regexp"
	"sort"
	"strings"
	"sync"
	"time"

	"golang.org/x/tools/go/packages"
	"golang.org/x/tools/go/ssa"
	"golang.org/x/tools/go/ssa/ssautil"
)

func mustTok(s string) token.Token {
	for t := token.Token(0); t < token.TILDE+1; t++ {
		if t.String() == s {
			return t
		}
	}
	panic("tok " + s)
}

type multiFlag []string

func (f *multiFlag) String() string     { return strings.Join(*f, ",") }
func (f *multiFlag) Set(s string) error { *f = append(*f, s); return nil }

type Result struct {
	Harness       string                   `json:"harness"`
	Pkg           string                   `json:"pkg"`
	Prop          string                   `json:"prop"`
	Mode          string                   `json:"mode"`
	Solver        string                   `json:"solver"`
	Params        map[string]int           `json:"params"`
	Paths         int                      `json:"paths"`
	Infeasible    int                      `json:"infeasible"`
	Unsupported   int                      `json:"unsupported"`
	Inconclusive  int                      `json:"inconclusive"`
	Panics        int                      `json:"panics"`
	Blocked       int                      `json:"blocked"`
	Forks         int                      `json:"forks"`
	Steps         int                      `json:"steps"`
	Queries       int                      `json:"queries"`
	Sat           int                      `json:"sat"`
	Unsat         int                      `json:"unsat"`
	Unknown       int                      `json:"unknown"`
	SolverErrors  int                      `json:"solver_errors"`
	SolverTimeS   float64                  `json:"solver_time_s"`
	LoadS         float64                  `json:"load_s"`
	ExploreS      float64                  `json:"explore_s"`
	Truncated     string                   `json:"truncated,omitempty"`
	Funcs         map[string]int           `json:"funcs"`
	StubsUsed     map[string]int           `json:"stubs_used"`
	Asserts       map[string]*AssertStat   `json:"asserts"`
	Reached       map[string]int           `json:"reached"`
	UnsupMsgs     map[string]int           `json:"unsupported_msgs,omitempty"`
	InconcMsgs    map[string]int           `json:"inconclusive_msgs,omitempty"`
	Violations    []Violation              `json:"violations"`
	Samples       []map[string]interface{} `json:"samples,omitempty"`
	LastSolverErr string                   `json:"last_solver_error,omitempty"`
}

type harnessFile struct {
	path string
	src  []byte
}

var harnessSrc []harnessFile

var pkgRe = regexp.MustCompile(`(?m)^package (\w+)`)
var stubRe = regexp.MustCompile(`(?m)^//verif:stub\s+(\S.*\S)\s+(verifStub\w+)\s*$`)

func main() {
	var harnessFiles multiFlag
	var params multiFlag
	flag.Var(&harnessFiles, "harness", "harness .go file (repeatable); injected by overlay into -dir as zz_verif_<name>")
	flag.Var(&params, "param", "name=int harness parameter (repeatable)")
	repo := flag.String("repo", "/repo", "repository root")
	dir := flag.String("dir", ".", "package directory relative to repo")
	fnName := flag.String("fn", "", "harness entry function")
	prop := flag.String("prop", "", "property id whose assertions are checked (empty = all)")
	solver := flag.String("solver", "z3-new", "solver binary")
	logq := flag.String("logq", "", "log the queries of worker 0 to this file")
	out := flag.String("out", "", "write JSON result here (default stdout)")
	workers := flag.Int("workers", 8, "parallel workers")
	maxPaths := flag.Int("maxpaths", 0, "stop after this many paths (0 = unlimited)")
	maxSteps := flag.Int("maxsteps", 3000000, "per-path instruction bound (unwinding assertion)")
	maxFork := flag.Int("maxfork", 64, "max values a symbolic index/length may fork over")
	preempt := flag.Int("preempt", 0, "max preemptions at synchronisation points per path")
	budget := flag.Duration("budget", 0, "wall-clock budget for exploration")
	raceLog := flag.Bool("race", false, "log heap accesses with lock sets and report race candidates")
	noPanics := flag.Bool("nopanics", false, "do not report Go run-time panics as violations")
	flag.BoolVar(&bvMode, "bv", false, "bit-vector encoding instead of Int")
	flag.BoolVar(&noSpec, "nospec", false, "disable if-conversion")
	flag.BoolVar(&debugPanics, "debugpanics", false, "let engine panics crash with a Go stack")
	flag.IntVar(&solverTimeoutMs, "qtimeout", 30000, "per-query solver timeout (ms)")
	rt := flag.String("rt", "/verif/harness/rt/rt_sym.go.tmpl", "intrinsics template injected into the harness package")
	quiet := flag.Bool("q", false, "no human summary on stderr")
	flag.Parse()

	overlay := map[string][]byte{}
	stubs := map[string]string{}
	absDir := filepath.Join(*repo, *dir)
	for _, h := range harnessFiles {
		src, err := os.ReadFile(h)
		if err != nil {
			fmt.Fprintln(os.Stderr, "harness:", err)
			os.Exit(3)
		}
		// the symbolic build uses the non-native variant of files: drop the build tag line
		base := filepath.Base(h)
		if !strings.HasPrefix(base, "zz_verif_") {
			base = "zz_verif_" + base
		}
		harnessSrc = append(harnessSrc, harnessFile{filepath.Join(absDir, base), src})
		for _, mm := range stubRe.FindAllStringSubmatch(string(src), -1) {
			stubs[mm[1]] = mm[2]
		}
	}
	var pkgName string
	for _, h := range harnessSrc {
		if pk := pkgRe.FindSubmatch(h.src); pk != nil && string(pk[1]) != "VERIFPKG" {
			pkgName = string(pk[1])
			break
		}
	}
	for _, h := range harnessSrc {
		overlay[h.path] = []byte(strings.Replace(string(h.src), "package VERIFPKG", "package "+pkgName, 1))
	}
	if *rt != "" && len(harnessFiles) > 0 {
		pk := [][]byte{nil, []byte(pkgName)}
		if pkgName == "" {
			pk = nil
		}
		tmpl, err := os.ReadFile(*rt)
		if err != nil || pk == nil {
			fmt.Fprintln(os.Stderr, "rt template:", err)
			os.Exit(3)
		}
		overlay[filepath.Join(absDir, "zz_verif_rt_sym.go")] = []byte(strings.Replace(string(tmpl), "VERIFPKG", string(pk[1]), 1))
	}
	pm := map[string]int{}
	for _, p := range params {
		kv := strings.SplitN(p, "=", 2)
		var v int
		fmt.Sscan(kv[1], &v)
		pm[kv[0]] = v
	}

	t0 := time.Now()
	cfg := &packages.Config{
		Mode:       packages.LoadAllSyntax | packages.NeedModule,
		Dir:        *repo,
		Overlay:    overlay,
		BuildFlags: []string{"-tags=verif,verifsym"},
		Env:        append(os.Environ(), "GOFLAGS=-mod=mod", "GOPROXY=off", "GOSUMDB=off", "GOTOOLCHAIN=local"),
	}
	pat := "./" + *dir
	pkgs, err := packages.Load(cfg, pat)
	if err != nil {
		fmt.Fprintln(os.Stderr, "load:", err)
		os.Exit(3)
	}
	if packages.PrintErrors(pkgs) > 0 {
		os.Exit(3)
	}
	prog, spkgs := ssautil.AllPackages(pkgs, ssa.InstantiateGenerics)
	prog.Build()
	var hp *ssa.Package
	for _, sp := range spkgs {
		if sp != nil {
			hp = sp
		}
	}
	if hp == nil {
		fmt.Fprintln(os.Stderr, "no package")
		os.Exit(3)
	}
	fn := hp.Func(*fnName)
	if fn == nil {
		fmt.Fprintln(os.Stderr, "no such function", *fnName)
		os.Exit(3)
	}
	entryFn = fn
	module := pkgs[0].Module.Path
	tload := time.Since(t0)

	ex := NewExplorer()
	ex.maxPaths = *maxPaths
	if *budget > 0 {
		ex.deadline = time.Now().Add(*budget)
	}
	mc := &Config{Prop: *prop, Params: pm, Stubs: stubs, HarnessPkg: hp, Module: module, MaxSteps: *maxSteps,
		MaxFork: *maxFork, Preempt: *preempt, CheckPanics: !*noPanics, RaceLog: *raceLog}
	t1 := time.Now()
	var wg sync.WaitGroup
	for w := 0; w < *workers; w++ {
		wg.Add(1)
		go func(w int) {
			defer wg.Done()
			m := NewMachine(prog, ex, mc, *solver)
			if w == 0 && *logq != "" {
				f, _ := os.Create(*logq)
				defer f.Close()
				m.sol.Log = f
			}
			m.Run()
		}(w)
	}
	wg.Wait()
	texp := time.Since(t1)

	mode := "int"
	if bvMode {
		mode = "bv"
	}
	res := &Result{Harness: *fnName, Pkg: hp.Pkg.Path(), Prop: *prop, Mode: mode, Solver: *solver, Params: pm,
		Paths: ex.Paths, Infeasible: ex.Infeasible, Unsupported: ex.Unsupported, Inconclusive: ex.Inconclusive, Panics: ex.Panics,
		Blocked: ex.Blocked, Forks: ex.Forks, Steps: ex.Steps, Queries: ex.Queries, Sat: ex.Sat, Unsat: ex.Unsat, Unknown: ex.Unknown,
		SolverErrors: ex.SolverErrors, SolverTimeS: ex.SolverTime.Seconds(), LoadS: tload.Seconds(), ExploreS: texp.Seconds(),
		Truncated: ex.Truncated, Funcs: map[string]int{}, StubsUsed: ex.StubsUsed, Asserts: ex.Asserts, Reached: ex.Reached,
		UnsupMsgs: ex.Unsup, InconcMsgs: ex.Inconc, Violations: ex.Viols, Samples: ex.Samples, LastSolverErr: lastSolverError}
	for f := range ex.Funcs {
		if strings.Contains(f, module) && !strings.Contains(f, "verif") && !strings.Contains(f, "Verif") {
			res.Funcs[f] = ex.FuncInstrs[f]
		}
	}
	for _, s := range res.Samples {
		delete(s, "\x00sync")
	}
	js, _ := json.MarshalIndent(res, "", " ")
	if *out != "" {
		os.WriteFile(*out, js, 0o644)
	} else {
		fmt.Println(string(js))
	}
	if !*quiet {
		fmt.Fprintf(os.Stderr, "[%s] load %.1fs explore %.1fs solver %.1fs | paths %d (infeasible %d, unsupported %d, inconclusive %d, panics %d, blocked %d) queries %d unknown %d | funcs %d | violations %d %s\n",
			*fnName, tload.Seconds(), texp.Seconds(), ex.SolverTime.Seconds(), ex.Paths, ex.Infeasible, ex.Unsupported, ex.Inconclusive, ex.Panics, ex.Blocked,
			ex.Queries, ex.Unknown, len(res.Funcs), len(ex.Viols), ex.Truncated)
		for _, k := range sortedKeys(ex.Unsup) {
			fmt.Fprintf(os.Stderr, "  UNSUPPORTED x%d: %s\n", ex.Unsup[k], k)
		}
		for _, k := range sortedKeys(ex.Inconc) {
			fmt.Fprintf(os.Stderr, "  INCONCLUSIVE x%d: %s\n", ex.Inconc[k], k)
		}
		var ks []string
		for k := range ex.Asserts {
			ks = append(ks, k)
		}
		sort.Strings(ks)
		for _, k := range ks {
			a := ex.Asserts[k]
			fmt.Fprintf(os.Stderr, "  assert %-40s checked %d violated %d unknown %d\n", k, a.Checked, a.Violated, a.Unknown)
		}
		seen := map[string]bool{}
		for _, v := range ex.Viols {
			if seen[v.Label] {
				continue
			}
			seen[v.Label] = true
			fmt.Fprintf(os.Stderr, "  CEX [%s] %s model=%v logs=%v\n", v.Kind, v.Label, v.Model, v.Logs)
		}
		var rk []string
		for k := range ex.Reached {
			rk = append(rk, fmt.Sprintf("%s:%d", k, ex.Reached[k]))
		}
		sort.Strings(rk)
		if len(rk) > 0 {
			fmt.Fprintf(os.Stderr, "  reached: %s\n", strings.Join(rk, " "))
		}
	}
}
