package main

import (
	"fmt"
	"go/types"

	"golang.org/x/tools/go/ssa"
)

const (
	tRunnable = iota
	tRunning
	tBlocked
	tDone
)

// Thread is a green thread: a real goroutine that only runs while it holds the baton.
type Thread struct {
	id    int
	name  string
	wake  chan struct{}
	state int
	cond  func() bool
	desc  string
	stack []*ssa.Function
	sel   *selWait
	// set when the thread is parked inside sync.Cond.Wait (for lost wake-up diagnostics)
	inCondWait *Cell
	condWoken  bool
}

type Chan struct {
	ID     int
	Closed bool
	Buf    []Value
	Cap    int
	Elem   types.Type
}

type selCase struct {
	ch   *Chan
	send bool
	val  Value
}

// selWait describes a thread parked in a select / channel operation.
type selWait struct {
	cases   []selCase
	forced  int // -1, or index of the case another thread completed for us
	recvVal Value
	recvOK  bool
}

func (m *Machine) spawn(body func(), name string) *Thread {
	t := &Thread{id: len(m.threads), wake: make(chan struct{}, 1), state: tRunnable, name: name}
	m.threads = append(m.threads, t)
	m.wg.Add(1)
	go func() {
		defer m.wg.Done()
		<-t.wake
		if m.killed {
			return
		}
		defer func() {
			r := recover()
			t.state = tDone
			if r != nil {
				pe, ok := r.(pathEnd)
				if ok && pe.kind == "killed" {
					return
				}
				if !ok {
					pe = pathEnd{"unsupported", fmt.Sprintf("engine error in thread %s: %v", t.name, r)}
					if debugPanics {
						panic(r)
					}
				}
				// abort the whole path through the main thread
				if m.abort == nil {
					m.abort = &pe
				}
				m.threads[0].wake <- struct{}{}
				return
			}
			if m.killed {
				return
			}
			// normal termination: hand the baton on
			next := m.pickNext(t)
			if next == nil {
				pe := pathEnd{"deadlock", m.deadlockDesc()}
				m.abort = &pe
				next = m.threads[0]
			}
			m.cur = next
			next.wake <- struct{}{}
		}()
		t.state = tRunning
		body()
	}()
	return t
}

func (m *Machine) deadlockDesc() string {
	s := "all threads blocked:"
	for _, t := range m.threads {
		if t.state == tBlocked {
			s += fmt.Sprintf(" [%s: %s]", t.name, t.desc)
		}
	}
	return s
}

// pickNext chooses the next thread to run (deterministic round robin); nil if none can run.
func (m *Machine) pickNext(from *Thread) *Thread {
	n := len(m.threads)
	for k := 1; k <= n; k++ {
		t := m.threads[(from.id+k)%n]
		if t == from && from.state != tRunnable && from.state != tBlocked {
			continue
		}
		switch t.state {
		case tRunnable:
			return t
		case tBlocked:
			if t.cond != nil && t.cond() {
				return t
			}
		}
	}
	return nil
}

// switchTo hands the baton to t and parks the current goroutine until it is woken again.
func (m *Machine) switchTo(t *Thread) {
	me := m.cur
	if t == me {
		return
	}
	m.cur = t
	t.wake <- struct{}{}
	<-me.wake
	m.resumed(me)
}

func (m *Machine) resumed(me *Thread) {
	if m.killed {
		panic(pathEnd{"killed", ""})
	}
	if m.abort != nil {
		if me.id == 0 {
			pe := *m.abort
			if pe.kind == "deadlock" {
				m.cur = me
				m.reportDeadlock(pe.msg)
			}
			panic(pe)
		}
		panic(pathEnd{"killed", ""})
	}
	m.cur = me
}

func (m *Machine) reportDeadlock(msg string) {
	label := "deadlock: " + msg
	r := m.sol.Check("")
	if r == "sat" {
		model, order := m.model()
		m.sol.Pop()
		m.recordViolation(Violation{Prop: m.cfg.Prop, Label: label, Kind: "deadlock", Model: model, Order: order,
			Path: append([]int{}, m.dec[:m.pos]...), Logs: append([]string{}, m.logs...)})
	} else {
		m.sol.Pop()
	}
	panic(pathEnd{"blocked", label})
}

// block parks the current thread until cond() holds.
func (m *Machine) block(cond func() bool, desc string) {
	me := m.cur
	for !cond() {
		me.state = tBlocked
		me.cond = cond
		me.desc = desc
		next := m.pickNext(me)
		if next == nil {
			if me.id == 0 {
				m.reportDeadlock(m.deadlockDesc())
			}
			pe := pathEnd{"deadlock", m.deadlockDesc()}
			m.abort = &pe
			next = m.threads[0]
		}
		if next == me {
			break
		}
		m.switchTo(next)
	}
	me.state = tRunning
	me.cond = nil
}

// yieldPoint is a synchronisation point at which another runnable thread may be scheduled
// (symbolic choice, bounded by cfg.Preempt).
func (m *Machine) yieldPoint(kind string) {
	if m.inHook {
		return
	}
	if h := m.hook("verifHookYield"); h != nil && m.cur.id == 0 {
		m.inHook = true
		m.call(h, []Value{kind}, nil)
		m.inHook = false
	}
	if m.preempts >= m.cfg.Preempt {
		return
	}
	var cands []*Thread
	for _, t := range m.threads {
		if t == m.cur {
			continue
		}
		if t.state == tRunnable || (t.state == tBlocked && t.cond != nil && t.cond()) {
			cands = append(cands, t)
		}
	}
	if len(cands) == 0 {
		return
	}
	d := m.pureFork(len(cands) + 1)
	if d == 0 {
		return
	}
	m.preempts++
	me := m.cur
	me.state = tRunnable
	m.switchTo(cands[d-1])
	me.state = tRunning
}

// quiesce runs every other thread until all of them are blocked or done.
func (m *Machine) quiesce() {
	me := m.cur
	cond := func() bool {
		for _, t := range m.threads {
			if t == me {
				continue
			}
			if t.state == tRunnable || (t.state == tBlocked && t.cond != nil && t.cond()) {
				return false
			}
		}
		return true
	}
	for !cond() {
		me.state = tBlocked
		me.cond = cond
		me.desc = "quiesce"
		next := m.pickNext(me)
		if next == nil || next == me {
			break
		}
		m.switchTo(next)
	}
	me.state = tRunning
	me.cond = nil
}

// ---------- channels ----------

func (m *Machine) otherWaiter(ch *Chan, wantSend bool) (*Thread, int) {
	for _, t := range m.threads {
		if t == m.cur || t.state != tBlocked || t.sel == nil || t.sel.forced >= 0 {
			continue
		}
		for i, c := range t.sel.cases {
			if c.ch == ch && c.send == wantSend {
				return t, i
			}
		}
	}
	return nil, -1
}

func (m *Machine) caseReady(c selCase) bool {
	if c.ch == nil {
		return false
	}
	if c.send {
		if c.ch.Closed {
			return true // will panic
		}
		if len(c.ch.Buf) < c.ch.Cap {
			return true
		}
		t, _ := m.otherWaiter(c.ch, false)
		return t != nil
	}
	if len(c.ch.Buf) > 0 || c.ch.Closed {
		return true
	}
	t, _ := m.otherWaiter(c.ch, true)
	return t != nil
}

// doCase performs a ready case; returns received value and ok.
func (m *Machine) doCase(c selCase) (Value, bool) {
	ch := c.ch
	if c.send {
		if ch.Closed {
			m.goPanic("send on closed channel")
		}
		if t, i := m.otherWaiter(ch, false); t != nil && len(ch.Buf) == 0 {
			t.sel.forced = i
			t.sel.recvVal = c.val
			t.sel.recvOK = true
			return nil, true
		}
		ch.Buf = append(ch.Buf, c.val)
		return nil, true
	}
	if len(ch.Buf) > 0 {
		v := ch.Buf[0]
		ch.Buf = ch.Buf[1:]
		// a parked sender can now deposit its value
		if t, i := m.otherWaiter(ch, true); t != nil {
			ch.Buf = append(ch.Buf, t.sel.cases[i].val)
			t.sel.forced = i
		}
		return v, true
	}
	if t, i := m.otherWaiter(ch, true); t != nil {
		t.sel.forced = i
		return t.sel.cases[i].val, true
	}
	if ch.Closed {
		return zero(ch.Elem), false
	}
	panic("doCase: not ready")
}

// selectCases runs a select over cases; returns chosen index (-1 default), recv value, ok.
func (m *Machine) selectCases(cases []selCase, blocking bool, desc string) (int, Value, bool) {
	for {
		var ready []int
		for i, c := range cases {
			if m.caseReady(c) {
				ready = append(ready, i)
			}
		}
		if len(ready) > 0 {
			k := ready[0]
			if len(ready) > 1 {
				k = ready[m.pureFork(len(ready))]
			}
			v, ok := m.doCase(cases[k])
			return k, v, ok
		}
		if !blocking {
			return -1, nil, false
		}
		me := m.cur
		sw := &selWait{cases: cases, forced: -1}
		me.sel = sw
		m.block(func() bool {
			if sw.forced >= 0 {
				return true
			}
			for _, c := range cases {
				if m.caseReady(c) {
					return true
				}
			}
			return false
		}, desc)
		me.sel = nil
		if sw.forced >= 0 {
			return sw.forced, sw.recvVal, sw.recvOK
		}
	}
}

func (m *Machine) chanSend(ch *Chan, v Value) {
	m.yieldPoint("chan-send")
	if ch == nil {
		m.block(func() bool { return false }, "send on nil channel")
		return
	}
	m.selectCases([]selCase{{ch: ch, send: true, val: v}}, true, "chan send")
}

func (m *Machine) chanRecv(ch *Chan) (Value, bool) {
	m.yieldPoint("chan-recv")
	if ch == nil {
		m.block(func() bool { return false }, "receive from nil channel")
		return nil, false
	}
	_, v, ok := m.selectCases([]selCase{{ch: ch}}, true, "chan recv")
	return v, ok
}

func (m *Machine) chanClose(ch *Chan) {
	if ch == nil {
		m.goPanic("close of nil channel")
	}
	if ch.Closed {
		m.goPanic("close of closed channel")
	}
	ch.Closed = true
	m.yieldPoint("chan-close")
}

func (m *Machine) selectOp(fr *frame, x *ssa.Select) Value {
	cases := make([]selCase, len(x.States))
	for k, st := range x.States {
		ch, _ := m.get(fr, st.Chan).(*Chan)
		cases[k] = selCase{ch: ch, send: st.Dir == types.SendOnly}
		if cases[k].send {
			cases[k].val = m.get(fr, st.Send)
		}
	}
	if x.Blocking {
		m.yieldPoint("select")
	}
	k, v, ok := m.selectCases(cases, x.Blocking, "select in "+fr.fn.Name())
	t := Tuple{mkI(int64(k), 64), mkBool(ok)}
	for kk, st := range x.States {
		if st.Dir == types.RecvOnly {
			if kk == k && v != nil {
				t = append(t, v)
			} else {
				t = append(t, zero(st.Chan.Type().Underlying().(*types.Chan).Elem()))
			}
		}
	}
	return t
}

// ---------- sync models ----------

func (m *Machine) mutexLock(c *Cell, what string) {
	if owner := m.held[c]; owner == m.cur {
		m.goPanic("self-deadlock: " + what + " of a mutex already held by this thread")
	}
	m.yieldPoint("lock")
	m.block(func() bool { return m.held[c] == nil && m.rheld[c] == 0 }, what)
	m.held[c] = m.cur
}

func (m *Machine) mutexUnlock(c *Cell) {
	if m.held[c] == nil {
		m.goPanic("sync: unlock of unlocked mutex")
	}
	delete(m.held, c)
	m.yieldPoint("unlock")
}

func (m *Machine) rLock(c *Cell) {
	m.yieldPoint("rlock")
	m.block(func() bool { return m.held[c] == nil }, "RLock")
	m.rheld[c]++
	if m.rheldBy[m.cur] == nil {
		m.rheldBy[m.cur] = map[*Cell]int{}
	}
	m.rheldBy[m.cur][c]++
}

func (m *Machine) rUnlock(c *Cell) {
	if m.rheld[c] == 0 {
		m.goPanic("sync: RUnlock of unlocked RWMutex")
	}
	m.rheld[c]--
	if m.rheldBy[m.cur] != nil {
		m.rheldBy[m.cur][c]--
	}
	m.yieldPoint("runlock")
}

// condWait models sync.Cond.Wait: register, unlock, park until signalled, re-lock.
func (m *Machine) condWait(cond *Cell, mu *Cell) {
	me := m.cur
	if m.held[mu] != me {
		m.goPanic("sync.Cond.Wait without holding the mutex")
	}
	me.condWoken = false
	me.inCondWait = cond
	m.condWaits[cond] = append(m.condWaits[cond], me)
	delete(m.held, mu)
	m.block(func() bool { return me.condWoken }, "sync.Cond.Wait")
	me.inCondWait = nil
	m.block(func() bool { return m.held[mu] == nil }, "re-lock after Cond.Wait")
	m.held[mu] = me
}

func (m *Machine) condBroadcast(cond *Cell, all bool) {
	ws := m.condWaits[cond]
	if len(ws) == 0 {
		m.yieldPoint("broadcast")
		return
	}
	if all {
		for _, t := range ws {
			t.condWoken = true
		}
		delete(m.condWaits, cond)
	} else {
		ws[0].condWoken = true
		m.condWaits[cond] = ws[1:]
	}
	m.yieldPoint("broadcast")
}
