package main

import (
	"bufio"
	"fmt"
	"io"
	"os/exec"
	"strings"
	"time"
)

// Solver is one persistent SMT solver process driven over stdin/stdout.
type Solver struct {
	bin     string
	cmd     *exec.Cmd
	in      *bufio.Writer
	inRaw   io.WriteCloser
	out     *bufio.Reader
	Queries int
	Sat     int
	Unsat   int
	Unknown int
	Errors  int
	Time    time.Duration
	Log     io.Writer
	depth   int
	dead    bool
}

func solverArgs(bin string) []string {
	switch {
	case strings.Contains(bin, "cvc5"):
		return []string{"--incremental", "--lang=smt2", "--produce-models", "--tlimit-per=" + fmt.Sprint(solverTimeoutMs)}
	default:
		return []string{"-in", fmt.Sprintf("-t:%d", solverTimeoutMs)}
	}
}

var solverTimeoutMs = 30000

func NewSolver(bin string) *Solver {
	cmd := exec.Command(bin, solverArgs(bin)...)
	in, _ := cmd.StdinPipe()
	out, _ := cmd.StdoutPipe()
	cmd.Stderr = cmd.Stdout
	if err := cmd.Start(); err != nil {
		panic(err)
	}
	s := &Solver{bin: bin, cmd: cmd, inRaw: in, in: bufio.NewWriterSize(in, 1<<16), out: bufio.NewReader(out)}
	s.Send("(set-option :produce-models true)")
	if strings.Contains(bin, "cvc5") {
		s.Send("(set-logic ALL)")
	}
	return s
}

func (s *Solver) Send(line string) {
	if s.Log != nil {
		fmt.Fprintln(s.Log, line)
	}
	s.in.WriteString(line)
	s.in.WriteByte('\n')
}

func (s *Solver) readLine() string {
	s.in.Flush()
	l, err := s.out.ReadString('\n')
	if err != nil {
		s.dead = true
		panic(pathEnd{"inconclusive", "solver died: " + err.Error()})
	}
	return strings.TrimSpace(l)
}

func (s *Solver) Push() { s.Send("(push 1)"); s.depth++ }
func (s *Solver) Pop()  { s.Send("(pop 1)"); s.depth-- }

// Check pushes a scope, asserts extra (if any) and checks. The caller must call Pop().
// Any "(error" line makes the verdict "unknown" (inconclusive), never a pass.
func (s *Solver) Check(extra string) string {
	t0 := time.Now()
	s.Queries++
	s.Push()
	if extra != "" {
		s.Send("(assert " + extra + ")")
	}
	s.Send("(check-sat)")
	sawErr := false
	r := s.readLine()
	for r != "sat" && r != "unsat" && r != "unknown" && r != "timeout" {
		if strings.HasPrefix(r, "(error") {
			sawErr = true
			s.Errors++
			if s.Log != nil {
				fmt.Fprintln(s.Log, "; SOLVER-ERROR "+r)
			}
			lastSolverError = r + " ;; extra=" + trunc(extra, 300)
		}
		r = s.readLine()
	}
	s.Time += time.Since(t0)
	if sawErr || r == "timeout" {
		r = "unknown"
	}
	switch r {
	case "sat":
		s.Sat++
	case "unsat":
		s.Unsat++
	default:
		s.Unknown++
	}
	return r
}

var lastSolverError string

func trunc(s string, n int) string {
	if len(s) > n {
		return s[:n] + "..."
	}
	return s
}

// GetValue evaluates an expression in the current model (after a sat Check, before Pop).
func (s *Solver) GetValue(expr string) string {
	s.Send("(get-value (" + expr + "))")
	l := s.readLine()
	// balance parens over multiple lines
	for strings.Count(l, "(") > strings.Count(l, ")") {
		l += " " + s.readLine()
	}
	l = strings.TrimSpace(l)
	l = strings.TrimPrefix(l, "((")
	l = strings.TrimSuffix(l, "))")
	// strip the echoed expression
	if strings.HasPrefix(l, expr) {
		l = strings.TrimSpace(l[len(expr):])
	} else if i := strings.LastIndex(l, " "); i >= 0 && !strings.HasSuffix(l, ")") {
		l = l[i+1:]
	}
	return l
}

func (s *Solver) Close() {
	defer func() { recover() }()
	s.Send("(exit)")
	s.in.Flush()
	s.inRaw.Close()
	s.cmd.Wait()
}

// parseModelInt parses an SMT value: 12, (- 12), #x.., #b.., (_ bvN w), true/false.
func parseModelValue(v string) (string, bool) {
	v = strings.TrimSpace(v)
	if strings.HasPrefix(v, "(- ") {
		return "-" + strings.TrimSuffix(strings.TrimPrefix(v, "(- "), ")"), true
	}
	if strings.HasPrefix(v, "#x") {
		var n uint64
		fmt.Sscanf(v[2:], "%x", &n)
		return fmt.Sprint(n), true
	}
	if strings.HasPrefix(v, "#b") {
		var n uint64
		for _, c := range v[2:] {
			n = n<<1 | uint64(c-'0')
		}
		return fmt.Sprint(n), true
	}
	if strings.HasPrefix(v, "(_ bv") {
		f := strings.Fields(v[5:])
		return f[0], true
	}
	return v, true
}
