package main

import (
	"math/big"
	"fmt"
	"go/types"
	"sort"
	"strings"
	"sync"
	"time"

	"golang.org/x/tools/go/ssa"
)

// ---------- shared exploration state ----------

type Violation struct {
	Prop   string            `json:"prop"`
	Label  string            `json:"label"`
	Kind   string            `json:"kind"` // assert | panic | deadlock
	Model  map[string]string `json:"model"`
	Order  []string          `json:"order"`
	Path   []int             `json:"path"`
	Stack  []string          `json:"stack,omitempty"`
	Logs   []string          `json:"logs,omitempty"`
	Detail string            `json:"detail,omitempty"`
	Pref   bool              `json:"pref"`
}

type AssertStat struct {
	Checked  int `json:"checked"`
	Violated int `json:"violated"`
	Unknown  int `json:"unknown"`
}

type Explorer struct {
	mu       sync.Mutex
	cond     *sync.Cond
	work     [][]int
	inflight int
	stopped  bool

	Paths, Infeasible, Unsupported, Panics, Blocked, Inconclusive, Forks, Steps, Killed int
	Queries, Sat, Unsat, Unknown, SolverErrors                                    int
	SolverTime                                                                    time.Duration
	Funcs                                                                         map[string]int
	FuncInstrs                                                                    map[string]int
	Unsup                                                                         map[string]int
	Inconc                                                                        map[string]int
	Asserts                                                                       map[string]*AssertStat
	Reached                                                                       map[string]int
	Viols                                                                         []Violation
	violCount                                                                     map[string]int
	Samples                                                                       []map[string]interface{}
	StubsUsed                                                                     map[string]int
	maxPaths                                                                      int
	deadline                                                                      time.Time
	Truncated                                                                     string
}

func NewExplorer() *Explorer {
	e := &Explorer{Funcs: map[string]int{}, FuncInstrs: map[string]int{}, Unsup: map[string]int{}, Inconc: map[string]int{},
		Asserts: map[string]*AssertStat{}, Reached: map[string]int{}, violCount: map[string]int{}, StubsUsed: map[string]int{}}
	e.cond = sync.NewCond(&e.mu)
	e.work = [][]int{{}}
	return e
}

func (e *Explorer) push(d []int) {
	e.mu.Lock()
	e.work = append(e.work, d)
	e.Forks++
	e.mu.Unlock()
	e.cond.Signal()
}

// next returns a decision prefix to run, or nil when exploration is complete.
func (e *Explorer) next() []int {
	e.mu.Lock()
	defer e.mu.Unlock()
	for {
		if e.stopped {
			return nil
		}
		if len(e.work) > 0 {
			if (e.maxPaths > 0 && e.Paths+e.inflight >= e.maxPaths) || (!e.deadline.IsZero() && time.Now().After(e.deadline)) {
				if e.Truncated == "" {
					e.Truncated = fmt.Sprintf("exploration cut (maxpaths/time budget) with %d prefixes pending", len(e.work))
				}
				e.stopped = true
				e.cond.Broadcast()
				return nil
			}
			d := e.work[len(e.work)-1]
			e.work = e.work[:len(e.work)-1]
			e.inflight++
			return d
		}
		if e.inflight == 0 {
			e.stopped = true
			e.cond.Broadcast()
			return nil
		}
		e.cond.Wait()
	}
}

func (e *Explorer) done() {
	e.mu.Lock()
	e.inflight--
	e.mu.Unlock()
	e.cond.Broadcast()
}

// ---------- machine (one per worker) ----------

type Config struct {
	Prop         string            // property whose asserts are checked ("" = all)
	Params       map[string]int    // verifParam values
	Stubs        map[string]string // callee name -> harness function name
	HarnessPkg   *ssa.Package
	Module       string
	MaxSteps     int
	MaxFork      int
	Preempt      int // max preemptions per path at sync points
	CheckPanics  bool
	MaxViolPer   int
	PinModel     map[string]string // concrete replay inside the engine (selftest)
	RaceLog      bool
}

type Machine struct {
	prog *ssa.Program
	sol  *Solver
	ex   *Explorer
	cfg  *Config

	// per path
	dec      []int
	pos      int
	nondets  []string
	ncount   map[string]int
	defs     int
	held     map[*Cell]*Thread
	rheld    map[*Cell]int
	rheldBy  map[*Thread]map[*Cell]int
	curInstr ssa.Instruction
	globals  map[*ssa.Global]*Cell
	steps    int
	chanID   int
	cellID   int
	logs     []string
	prefers  []*Term
	reached  map[string]bool
	pathTag  map[string]interface{}

	// persistent (stdlib) globals + init bookkeeping
	stdGlobals map[*ssa.Global]*Cell
	stdInit    map[*ssa.Package]bool
	pathInit   map[*ssa.Package]bool

	// threads
	threads   []*Thread
	cur       *Thread
	killed    bool
	abort     *pathEnd
	wg        sync.WaitGroup
	preempts  int
	inHook    bool
	condWaits map[*Cell][]*Thread

	funcsSeen map[*ssa.Function]bool

	postdomCache map[*ssa.BasicBlock]*specRegion
}

func NewMachine(prog *ssa.Program, ex *Explorer, cfg *Config, solverBin string) *Machine {
	m := &Machine{prog: prog, ex: ex, cfg: cfg, sol: NewSolver(solverBin)}
	m.stdGlobals = map[*ssa.Global]*Cell{}
	m.stdInit = map[*ssa.Package]bool{}
	m.funcsSeen = map[*ssa.Function]bool{}
	m.postdomCache = map[*ssa.BasicBlock]*specRegion{}
	return m
}

func (m *Machine) Run() {
	for {
		d := m.ex.next()
		if d == nil {
			break
		}
		m.runPath(d)
		m.ex.done()
	}
	m.ex.mu.Lock()
	m.ex.Queries += m.sol.Queries
	m.ex.Sat += m.sol.Sat
	m.ex.Unsat += m.sol.Unsat
	m.ex.Unknown += m.sol.Unknown
	m.ex.SolverErrors += m.sol.Errors
	m.ex.SolverTime += m.sol.Time
	m.ex.mu.Unlock()
	m.sol.Close()
}

var entryFn *ssa.Function

func (m *Machine) runPath(dec []int) {
	m.dec, m.pos = dec, 0
	m.nondets = nil
	m.ncount = map[string]int{}
	m.held = map[*Cell]*Thread{}
	m.rheld = map[*Cell]int{}
	m.rheldBy = map[*Thread]map[*Cell]int{}
	m.globals = map[*ssa.Global]*Cell{}
	m.pathInit = map[*ssa.Package]bool{}
	m.steps = 0
	m.logs = nil
	m.prefers = nil
	m.reached = map[string]bool{}
	m.killed = false
	m.abort = nil
	m.preempts = 0
	m.inHook = false
	m.condWaits = map[*Cell][]*Thread{}
	m.pathTag = nil
	main := &Thread{id: 0, wake: make(chan struct{}, 1), state: tRunning, name: "main"}
	m.threads = []*Thread{main}
	m.cur = main
	if m.sol.dead {
		m.sol = NewSolver(m.sol.bin)
	}
	m.sol.Push()
	startSteps := 0
	var end pathEnd
	func() {
		defer func() {
			if r := recover(); r != nil {
				pe, ok := r.(pathEnd)
				if !ok {
					// internal error of the engine: report as unsupported with stack hint
					pe = pathEnd{"unsupported", fmt.Sprintf("engine error: %v @ %s", r, m.where())}
					if debugPanics {
						panic(r)
					}
				}
				end = pe
			} else {
				end = pathEnd{"ok", ""}
			}
		}()
		m.call(entryFn, nil, nil)
	}()
	_ = startSteps
	// sample: a concrete input driving this path (first few completed paths only)
	var sample map[string]interface{}
	if end.kind == "ok" && !m.sol.dead {
		m.ex.mu.Lock()
		need := len(m.ex.Samples) < 3
		m.ex.mu.Unlock()
		if need && m.sol.depth == 1 {
			func() {
				defer func() { recover() }()
				ex := ""
				for _, p := range m.prefers {
					if ex == "" {
						ex = p.S
					} else {
						ex = "(and " + ex + " " + p.S + ")"
					}
				}
				r := m.sol.Check(ex)
				if r != "sat" && ex != "" {
					m.sol.Pop()
					r = m.sol.Check("")
				}
				if r == "sat" {
					model, _ := m.model()
					sample = map[string]interface{}{"decisions": append([]int{}, m.dec[:m.pos]...), "inputs": model}
					if len(m.logs) > 0 {
						sample["log"] = append([]string{}, m.logs...)
					}
				}
				m.sol.Pop()
			}()
		}
	}
	if m.cfg.RaceLog && end.kind == "ok" {
		for _, k := range m.raceCandidates() {
			if r := m.sol.Check(""); r == "sat" {
				model, order := m.model()
				m.sol.Pop()
				m.recordViolation(Violation{Prop: m.cfg.Prop, Label: "race: " + k, Kind: "race", Pref: true, Model: model, Order: order,
					Path: append([]int{}, m.dec[:m.pos]...)})
			} else {
				m.sol.Pop()
			}
		}
	}
	// kill remaining threads
	m.killed = true
	for _, t := range m.threads[1:] {
		if t.state != tDone {
			t.wake <- struct{}{}
		}
	}
	m.wg.Wait()
	if !m.sol.dead {
		for m.sol.depth > 0 {
			m.sol.Pop()
		}
	}
	ex := m.ex
	ex.mu.Lock()
	defer ex.mu.Unlock()
	ex.Paths++
	ex.Steps += m.steps
	for k := range m.reached {
		ex.Reached[k]++
	}
	switch end.kind {
	case "ok":
	case "infeasible":
		ex.Infeasible++
	case "unsupported":
		ex.Unsupported++
		ex.Unsup[end.msg]++
	case "inconclusive":
		ex.Inconclusive++
		ex.Inconc[end.msg]++
	case "blocked":
		ex.Blocked++
	case "stop":
	}
	if len(ex.Samples) < 3 && sample != nil {
		ex.Samples = append(ex.Samples, sample)
	}
}

var debugPanics bool

func (m *Machine) where() string {
	if m.cur == nil || len(m.cur.stack) == 0 {
		return "?"
	}
	var s []string
	for i := len(m.cur.stack) - 1; i >= 0 && len(s) < 6; i-- {
		s = append(s, m.cur.stack[i].String())
	}
	return strings.Join(s, " < ")
}

func (m *Machine) stackStrings() []string {
	var s []string
	if m.cur == nil {
		return s
	}
	for i := len(m.cur.stack) - 1; i >= 0 && len(s) < 12; i-- {
		s = append(s, m.cur.stack[i].String())
	}
	return s
}

// ---------- solver interaction ----------

func (m *Machine) declare(name string, sort string) string {
	m.ncount[name]++
	n := fmt.Sprintf("%s!%d", name, m.ncount[name])
	m.nondets = append(m.nondets, n)
	m.sol.Send(fmt.Sprintf("(declare-const |%s| %s)", n, sort))
	return n
}

func (m *Machine) declareInt(name string, w int, signed bool, lo, hi *big.Int) *Term {
	tlo, thi := typeRange(w, signed)
	if lo == nil {
		lo = tlo
	}
	if hi == nil {
		hi = thi
	}
	if bvMode {
		n := m.declare(name, fmt.Sprintf("(_ BitVec %d)", w))
		t := &Term{S: "|" + n + "|", K: KInt, W: w}
		if lo.Cmp(tlo) != 0 || hi.Cmp(thi) != 0 {
			m.sol.Send("(assert " + tAnd(tCmp("ge", t, mkConst(lo, w), signed), tCmp("le", t, mkConst(hi, w), signed)).S + ")")
		}
		return t
	}
	n := m.declare(name, "Int")
	m.sol.Send(fmt.Sprintf("(assert (and (<= %s |%s|) (<= |%s| %s)))", intLit(lo), n, n, intLit(hi)))
	return &Term{S: "|" + n + "|", K: KInt, W: w, Lo: lo, Hi: hi}
}

func (m *Machine) pinned(name string) (string, bool) { return "", false }

func (m *Machine) declareBool(name string) *Term {
	n := m.declare(name, "Bool")
	return &Term{S: "|" + n + "|", K: KBool}
}

// name gives a large term a solver-side definition so that term strings stay small.
func (m *Machine) nameTerm(t *Term) *Term {
	if t.IsConst() || len(t.S) < 200 {
		return t
	}
	m.defs++
	n := fmt.Sprintf("|T#%d|", m.defs)
	m.sol.Send(fmt.Sprintf("(define-fun %s () %s %s)", n, sortOf(t), t.S))
	c := *t
	c.S = n
	return &c
}

func (m *Machine) assume(t *Term) {
	if t.IsConst() {
		if !t.Bool() {
			panic(pathEnd{"infeasible", "assume false"})
		}
		return
	}
	m.sol.Send("(assert " + t.S + ")")
}

func (m *Machine) inconclusive(what string) {
	panic(pathEnd{"inconclusive", what})
}

// decide returns the branch index to take for an n-way choice with feasibility conditions conds.
func (m *Machine) decide(conds []*Term) int {
	if m.pos < len(m.dec) {
		d := m.dec[m.pos]
		m.pos++
		if d >= len(conds) {
			panic(pathEnd{"unsupported", "engine: decision vector out of sync"})
		}
		m.assume(conds[d])
		return d
	}
	var feas []int
	for i, c := range conds {
		if c.IsConst() {
			if c.Bool() {
				feas = append(feas, i)
			}
			continue
		}
		r := m.sol.Check(c.S)
		m.sol.Pop()
		if r == "sat" {
			feas = append(feas, i)
		} else if r != "unsat" {
			m.inconclusive("solver unknown on branch feasibility @ " + m.where())
		}
	}
	if len(feas) == 0 {
		panic(pathEnd{"infeasible", "no feasible branch"})
	}
	for _, alt := range feas[1:] {
		nd := make([]int, len(m.dec)+1)
		copy(nd, m.dec)
		nd[len(m.dec)] = alt
		m.ex.push(nd)
	}
	m.dec = append(m.dec, feas[0])
	m.pos++
	if len(feas) > 1 || !conds[feas[0]].IsConst() {
		m.assume(conds[feas[0]])
	}
	return feas[0]
}

func (m *Machine) branch(c *Term) bool {
	if c.IsConst() {
		return c.Bool()
	}
	return m.decide2(c, tNot(c)) == 0
}

// decide2 is decide for a condition and its negation: the current path is feasible, so when
// one side is unsat the other one needs no query.
func (m *Machine) decide2(c, nc *Term) int {
	if m.pos < len(m.dec) {
		d := m.dec[m.pos]
		m.pos++
		if d == 0 {
			m.assume(c)
		} else {
			m.assume(nc)
		}
		return d
	}
	r := m.sol.Check(c.S)
	m.sol.Pop()
	if r != "sat" && r != "unsat" {
		m.inconclusive("solver unknown on branch feasibility @ " + m.where())
	}
	if r == "unsat" {
		m.dec = append(m.dec, 1)
		m.pos++
		return 1
	}
	r2 := m.sol.Check(nc.S)
	m.sol.Pop()
	if r2 != "sat" && r2 != "unsat" {
		m.inconclusive("solver unknown on branch feasibility @ " + m.where())
	}
	if r2 == "sat" {
		nd := make([]int, len(m.dec)+1)
		copy(nd, m.dec)
		nd[len(m.dec)] = 1
		m.ex.push(nd)
		m.dec = append(m.dec, 0)
		m.pos++
		m.assume(c)
		return 0
	}
	m.dec = append(m.dec, 0)
	m.pos++
	return 0
}

// pureFork is an n-way choice in which every alternative is feasible.
func (m *Machine) pureFork(n int) int {
	if n <= 1 {
		return 0
	}
	conds := make([]*Term, n)
	for i := range conds {
		conds[i] = tTrue
	}
	return m.decide(conds)
}

func (m *Machine) model() (map[string]string, []string) {
	model := map[string]string{}
	for _, n := range m.nondets {
		v, _ := parseModelValue(m.sol.GetValue("|" + n + "|"))
		model[n] = v
	}
	return model, append([]string{}, m.nondets...)
}

// check discharges an assertion: sat(path ∧ ¬c) is a violation with a model.
func (m *Machine) check(prop, label string, c *Term) {
	key := prop + "/" + label
	m.ex.mu.Lock()
	st := m.ex.Asserts[key]
	if st == nil {
		st = &AssertStat{}
		m.ex.Asserts[key] = st
	}
	st.Checked++
	m.ex.mu.Unlock()
	if c.IsConst() && c.Bool() {
		return
	}
	var r string
	if !c.IsConst() {
		r = m.sol.Check(tNot(c).S)
	} else {
		r = m.sol.Check("")
	}
	if r == "sat" {
		model, order := m.model()
		m.sol.Pop()
		pref := false
		// prefer a model that also satisfies the harness's replayability preferences
		if len(m.prefers) > 0 {
			ex := tNot(c).S
			if c.IsConst() {
				ex = "true"
			}
			for _, p := range m.prefers {
				ex = "(and " + ex + " " + p.S + ")"
			}
			if r2 := m.sol.Check(ex); r2 == "sat" {
				model, order = m.model()
				pref = true
			}
			m.sol.Pop()
		} else {
			pref = true
		}
		m.recordViolation(Violation{Prop: prop, Label: label, Kind: "assert", Pref: pref, Model: model, Order: order,
			Path: append([]int{}, m.dec[:m.pos]...), Stack: m.stackStrings(), Logs: append([]string{}, m.logs...)})
		m.ex.mu.Lock()
		st.Violated++
		m.ex.mu.Unlock()
	} else {
		m.sol.Pop()
		if r != "unsat" {
			m.ex.mu.Lock()
			st.Unknown++
			m.ex.Inconc["solver unknown on assert "+key]++
			m.ex.mu.Unlock()
		}
	}
	if c.IsConst() {
		panic(pathEnd{"stop", "assert false"})
	}
	m.assume(c)
}

func (m *Machine) recordViolation(v Violation) {
	m.ex.mu.Lock()
	defer m.ex.mu.Unlock()
	k := v.Prop + "/" + v.Label
	if v.Pref {
		k += "/pref"
	}
	m.ex.violCount[k]++
	max := m.cfg.MaxViolPer
	if max == 0 {
		max = 4
	}
	if m.ex.violCount[k] <= max {
		m.ex.Viols = append(m.ex.Viols, v)
	}
}

// runtimePanic ends the path with a Go run-time panic (a violation when CheckPanics).
func (m *Machine) runtimePanic(msg string) {
	panic(pathEnd{"panic", msg})
}

// panicIf forks on a symbolic panic condition; the panicking side is reported.
func (m *Machine) panicIf(c *Term, msg string) {
	if c.IsConst() {
		if c.Bool() {
			m.goPanic(msg)
		}
		return
	}
	if m.decide2(tNot(c), c) == 1 {
		m.goPanic(msg)
	}
}

// goPanic reports a Go run-time panic on this path (with a model) and ends the path.
func (m *Machine) goPanic(msg string) {
	label := "panic: " + msg + " @ " + m.whereShort()
	if m.cfg.CheckPanics {
		r := m.sol.Check("")
		if r == "sat" {
			model, order := m.model()
			m.sol.Pop()
			m.recordViolation(Violation{Prop: m.cfg.Prop, Label: label, Kind: "panic", Model: model, Order: order,
				Path: append([]int{}, m.dec[:m.pos]...), Stack: m.stackStrings(), Logs: append([]string{}, m.logs...)})
		} else {
			m.sol.Pop()
		}
	}
	m.ex.mu.Lock()
	m.ex.Panics++
	m.ex.mu.Unlock()
	panic(pathEnd{"panic", label})
}

func (m *Machine) whereShort() string {
	if m.cur == nil || len(m.cur.stack) == 0 {
		return "?"
	}
	// innermost function of the module under test, plus the innermost function
	in := m.cur.stack[len(m.cur.stack)-1].String()
	for i := len(m.cur.stack) - 1; i >= 0; i-- {
		f := m.cur.stack[i]
		if f.Pkg != nil && strings.HasPrefix(f.Pkg.Pkg.Path(), m.cfg.Module) && !strings.HasPrefix(f.Name(), "Verif") && !strings.HasPrefix(f.Name(), "verif") {
			if f.String() == in {
				return in
			}
			return f.String() + " .. " + in
		}
	}
	return in
}

// concretize forks over the feasible values of t within [lo,hi].
func (m *Machine) concretize(t *Term, lo, hi int, what string) int {
	if t.C != nil {
		return int(t.Int64())
	}
	if !bvMode {
		if t.Lo != nil && t.Lo.IsInt64() && int(t.Lo.Int64()) > lo {
			lo = int(t.Lo.Int64())
		}
		if t.Hi != nil && t.Hi.IsInt64() && int(t.Hi.Int64()) < hi {
			hi = int(t.Hi.Int64())
		}
	}
	if hi-lo+1 > m.cfg.MaxFork {
		unsupported("symbolic %s with more than %d candidate values @ %s", what, m.cfg.MaxFork, m.where())
	}
	if hi < lo {
		panic(pathEnd{"infeasible", "empty range"})
	}
	conds := make([]*Term, 0, hi-lo+1)
	for i := lo; i <= hi; i++ {
		conds = append(conds, tEq(t, mkI(int64(i), t.W)))
	}
	return lo + m.decide(conds)
}

// ---------- globals and package init ----------

func (m *Machine) isModulePkg(p *ssa.Package) bool {
	return p != nil && strings.HasPrefix(p.Pkg.Path(), m.cfg.Module)
}

func (m *Machine) global(g *ssa.Global) *Cell {
	if m.isModulePkg(g.Pkg) {
		if c, ok := m.globals[g]; ok {
			return c
		}
		m.ensureInit(g.Pkg)
		if c, ok := m.globals[g]; ok {
			return c
		}
		c := &Cell{V: zero(g.Type().(*types.Pointer).Elem())}
		m.globals[g] = c
		return c
	}
	if c, ok := m.stdGlobals[g]; ok {
		return c
	}
	m.ensureInit(g.Pkg)
	if c, ok := m.stdGlobals[g]; ok {
		return c
	}
	c := &Cell{V: zero(g.Type().(*types.Pointer).Elem())}
	m.stdGlobals[g] = c
	return c
}

func (m *Machine) globalRaw(g *ssa.Global) *Cell {
	tab := m.stdGlobals
	if m.isModulePkg(g.Pkg) {
		tab = m.globals
	}
	if c, ok := tab[g]; ok {
		return c
	}
	c := &Cell{V: zero(g.Type().(*types.Pointer).Elem())}
	tab[g] = c
	return c
}

var initSkip = map[string]bool{"os": true, "syscall": true, "runtime": true, "internal/poll": true, "net": true, "crypto/rand": true,
	"internal/godebug": true, "internal/cpu": true, "reflect": true, "net/http": true, "crypto/tls": true, "internal/syscall/unix": true,
	"sync": true, "os/signal": true, "log": true, "testing": true}

// ensureInit runs the package initializer (variable initializers + init functions) the
// first time a global of the package is touched. Calls to other packages' init are skipped
// (they are run lazily in the same way).
func (m *Machine) ensureInit(p *ssa.Package) {
	if p == nil {
		return
	}
	mod := m.isModulePkg(p)
	if mod {
		if m.pathInit[p] {
			return
		}
		m.pathInit[p] = true
	} else {
		if m.stdInit[p] {
			return
		}
		m.stdInit[p] = true
	}
	if initSkip[p.Pkg.Path()] {
		return
	}
	fn := p.Func("init")
	if fn == nil || fn.Blocks == nil {
		return
	}
	// package init must run concretely; failures inside are reported but do not end the path
	func() {
		savedCur := m.cur
		defer func() {
			if r := recover(); r != nil {
				m.cur = savedCur
				if pe, ok := r.(pathEnd); ok {
					if pe.kind == "unsupported" {
						m.ex.mu.Lock()
						m.ex.Unsup["(package init "+p.Pkg.Path()+", continued) "+pe.msg]++
						m.ex.mu.Unlock()
						return
					}
					panic(r)
				}
				panic(r)
			}
		}()
		m.callInit(fn)
	}()
}

// ---------- reporting helpers ----------

func sortedKeys(m map[string]int) []string {
	var ks []string
	for k := range m {
		ks = append(ks, k)
	}
	sort.Strings(ks)
	return ks
}
