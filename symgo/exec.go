package main

import (
	"fmt"
	"go/constant"
	"go/token"
	"go/types"
	"math/big"
	"strings"

	"golang.org/x/tools/go/ssa"
)

type frame struct {
	fn     *ssa.Function
	env    map[ssa.Value]Value
	defers []func()
	prev   *ssa.BasicBlock
}

func (m *Machine) constVal(c *ssa.Const) Value {
	t := c.Type()
	if c.Value == nil {
		return zero(t)
	}
	if w, _, ok := intInfo(t); ok {
		bi, ok2 := new(big.Int).SetString(constant.ToInt(c.Value).ExactString(), 10)
		if !ok2 {
			unsupported("const %s", c.Value)
		}
		return mkConst(bi, w)
	}
	if isBool(t) {
		return mkBool(constant.BoolVal(c.Value))
	}
	if isString(t) {
		return constant.StringVal(c.Value)
	}
	if isFloat(t) {
		f, _ := constant.Float64Val(c.Value)
		if b := t.Underlying().(*types.Basic); b.Kind() == types.Float32 {
			f = float64(float32(f))
		}
		return mkF(f)
	}
	unsupported("const of type %s", t)
	return nil
}

func (m *Machine) get(fr *frame, v ssa.Value) Value {
	switch x := v.(type) {
	case *ssa.Const:
		return m.constVal(x)
	case *ssa.Global:
		return Ptr{m.global(x)}
	case *ssa.Function:
		return &Closure{Fn: x}
	case *ssa.Builtin:
		return x
	}
	r, ok := fr.env[v]
	if !ok {
		panic(fmt.Sprintf("no value for %s in %s", v.Name(), fr.fn))
	}
	return r
}

func (m *Machine) noteFunc(fn *ssa.Function) {
	if m.funcsSeen[fn] {
		return
	}
	m.funcsSeen[fn] = true
	n := 0
	for _, b := range fn.Blocks {
		n += len(b.Instrs)
	}
	m.ex.mu.Lock()
	m.ex.Funcs[fn.String()]++
	m.ex.FuncInstrs[fn.String()] = n
	m.ex.mu.Unlock()
}

// callInit runs a package init body, skipping calls into other packages' init.
func (m *Machine) callInit(fn *ssa.Function) {
	m.callBody(fn, nil, nil, true)
}

func (m *Machine) call(fn *ssa.Function, args []Value, env []Value) Value {
	if r, ok := m.intrinsic(fn, args); ok {
		return r
	}
	if fn.Blocks == nil {
		unsupported("no body: %s (called from %s)", fn, m.where())
	}
	return m.callBody(fn, args, env, false)
}

func (m *Machine) callBody(fn *ssa.Function, args []Value, env []Value, isInit bool) Value {
	m.noteFunc(fn)
	t := m.cur
	t.stack = append(t.stack, fn)
	if len(t.stack) > 400 {
		unsupported("call depth > 400 @ %s", m.where())
	}
	defer func() { t.stack = t.stack[:len(t.stack)-1] }()
	fr := &frame{fn: fn, env: make(map[ssa.Value]Value, 16)}
	for i, p := range fn.Params {
		fr.env[p] = args[i]
	}
	for i, fv := range fn.FreeVars {
		fr.env[fv] = env[i]
	}
	b := fn.Blocks[0]
	for {
		var next *ssa.BasicBlock
		for _, in := range b.Instrs {
			m.curInstr = in
			m.steps++
			if m.steps > m.cfg.MaxSteps {
				m.inconclusive(fmt.Sprintf("step limit %d (unwinding bound) exceeded @ %s", m.cfg.MaxSteps, m.where()))
			}
			switch x := in.(type) {
			case *ssa.Return:
				m.runDefers(fr)
				switch len(x.Results) {
				case 0:
					return nil
				case 1:
					return m.get(fr, x.Results[0])
				}
				tu := make(Tuple, len(x.Results))
				for i, r := range x.Results {
					tu[i] = m.get(fr, r)
				}
				return tu
			case *ssa.Jump:
				next = b.Succs[0]
			case *ssa.If:
				c := m.get(fr, x.Cond).(*Term)
				if c.IsConst() {
					if c.Bool() {
						next = b.Succs[0]
					} else {
						next = b.Succs[1]
					}
				} else if j, pred := m.speculate(fr, b, c); j != nil {
					fr.prev = pred
					b = j
					goto nextBlock
				} else if m.branch(c) {
					next = b.Succs[0]
					m.refine(fr, x.Cond, true)
				} else {
					next = b.Succs[1]
					m.refine(fr, x.Cond, false)
				}
			case *ssa.Panic:
				v := m.get(fr, x.X)
				m.goPanic("explicit panic(" + describe(v) + ")")
			case *ssa.Call:
				if isInit {
					if f, ok := x.Call.Value.(*ssa.Function); ok && f.Name() == "init" && f.Pkg != fn.Pkg {
						continue
					}
				}
				m.exec(fr, in)
			default:
				m.exec(fr, in)
			}
		}
		fr.prev = b
		b = next
	nextBlock:
	}
}

func describe(v Value) string {
	switch x := v.(type) {
	case Iface:
		if s, ok := x.V.(string); ok {
			return s
		}
		if x.T != nil {
			if p, ok := x.V.(Ptr); ok && p.C != nil {
				if st, ok := p.C.V.(*Struct); ok && len(st.F) > 0 {
					if s, ok := st.F[0].V.(string); ok {
						return x.T.String() + ":" + s
					}
				}
			}
			return x.T.String()
		}
	case string:
		return x
	}
	return fmt.Sprintf("%T", v)
}

func (m *Machine) runDefers(fr *frame) {
	for len(fr.defers) > 0 {
		f := fr.defers[len(fr.defers)-1]
		fr.defers = fr.defers[:len(fr.defers)-1]
		f()
	}
}

func (m *Machine) callCommon(fr *frame, cc *ssa.CallCommon) func() Value {
	args := make([]Value, 0, len(cc.Args)+1)
	if cc.IsInvoke() {
		recv, ok := m.get(fr, cc.Value).(Iface)
		if !ok || recv.T == nil {
			m.goPanic("nil interface method call " + cc.Method.Name())
		}
		for _, a := range cc.Args {
			args = append(args, m.get(fr, a))
		}
		meth := m.prog.LookupMethod(recv.T, cc.Method.Pkg(), cc.Method.Name())
		if meth == nil {
			unsupported("method %s not found on %s", cc.Method.Name(), recv.T)
		}
		all := append([]Value{recv.V}, args...)
		return func() Value { return m.call(meth, all, nil) }
	}
	for _, a := range cc.Args {
		args = append(args, m.get(fr, a))
	}
	switch f := cc.Value.(type) {
	case *ssa.Builtin:
		return func() Value { return m.builtin(f, cc, args) }
	case *ssa.Function:
		return func() Value { return m.call(f, args, nil) }
	}
	cl, _ := m.get(fr, cc.Value).(*Closure)
	if cl == nil {
		m.goPanic("call of nil func")
	}
	return func() Value { return m.call(cl.Fn, args, cl.Env) }
}

func (m *Machine) newCell(v Value) *Cell {
	m.cellID++
	return &Cell{V: v, ID: m.cellID}
}

func (m *Machine) load(p Ptr, what string) Value {
	if p.C == nil {
		m.goPanic("nil pointer dereference")
	}
	if m.cfg.RaceLog {
		m.access(p.C, false)
	}
	return copyVal(p.C.V)
}

func (m *Machine) exec(fr *frame, in ssa.Instruction) {
	switch x := in.(type) {
	case *ssa.Alloc:
		fr.env[x] = Ptr{m.newCell(zero(x.Type().(*types.Pointer).Elem()))}
	case *ssa.Store:
		p := m.get(fr, x.Addr).(Ptr)
		if p.C == nil {
			m.goPanic("nil pointer dereference (store)")
		}
		if m.cfg.RaceLog {
			m.access(p.C, true)
		}
		storeInto(p.C, m.get(fr, x.Val))
	case *ssa.UnOp:
		fr.env[x] = m.unop(fr, x)
	case *ssa.BinOp:
		fr.env[x] = m.binop(x.Op, m.get(fr, x.X), m.get(fr, x.Y), x.X.Type(), x.Y.Type())
	case *ssa.FieldAddr:
		p := m.get(fr, x.X).(Ptr)
		if p.C == nil {
			m.goPanic(fmt.Sprintf("nil pointer dereference (field %s)", fieldName(x.X.Type(), x.Field)))
		}
		fr.env[x] = Ptr{p.C.V.(*Struct).F[x.Field]}
	case *ssa.Field:
		fr.env[x] = copyVal(m.get(fr, x.X).(*Struct).F[x.Field].V)
	case *ssa.IndexAddr:
		i := m.get(fr, x.Index).(*Term)
		switch b := m.get(fr, x.X).(type) {
		case Slice:
			if sp, ok := m.symIndex(i, b.A, b.Off, b.Len); ok {
				fr.env[x] = sp
				return
			}
			k := m.idx(i, b.Len, "index")
			fr.env[x] = Ptr{b.A.at(b.Off + k)}
		case Ptr:
			if b.C == nil {
				m.goPanic("nil pointer dereference (array)")
			}
			a := b.C.V.(*Array)
			if sp, ok := m.symIndex(i, a, 0, len(a.E)); ok {
				fr.env[x] = sp
				return
			}
			fr.env[x] = Ptr{a.at(m.idx(i, len(a.E), "array index"))}
		default:
			unsupported("IndexAddr on %T", b)
		}
	case *ssa.Index:
		i := m.get(fr, x.Index).(*Term)
		switch b := m.get(fr, x.X).(type) {
		case *Array:
			if sp, ok := m.symIndex(i, b, 0, len(b.E)); ok {
				fr.env[x] = m.symLoad(sp)
				return
			}
			fr.env[x] = copyVal(b.at(m.idx(i, len(b.E), "array index")).V)
		case string:
			fr.env[x] = m.strIndex(b, i)
		case SStr:
			fr.env[x] = b[m.idx(i, len(b), "string index")]
		default:
			unsupported("Index on %T", b)
		}
	case *ssa.Phi:
		if fr.prev == specPred {
			return // bound by speculate
		}
		for i, p := range x.Block().Preds {
			if p == fr.prev {
				fr.env[x] = m.get(fr, x.Edges[i])
				return
			}
		}
		panic("phi: no pred")
	case *ssa.Call:
		fr.env[x] = m.callCommon(fr, x.Common())()
	case *ssa.Defer:
		f := m.callCommon(fr, x.Common())
		fr.defers = append(fr.defers, func() { f() })
	case *ssa.Go:
		f := m.callCommon(fr, x.Common())
		m.spawn(func() { f() }, x.Common().Description()+" "+callName(x.Common()))
	case *ssa.RunDefers:
		m.runDefers(fr)
	case *ssa.Extract:
		fr.env[x] = m.get(fr, x.Tuple).(Tuple)[x.Index]
	case *ssa.MakeInterface:
		fr.env[x] = Iface{x.X.Type(), m.get(fr, x.X)}
	case *ssa.ChangeInterface:
		fr.env[x] = m.get(fr, x.X)
	case *ssa.ChangeType:
		fr.env[x] = m.get(fr, x.X)
	case *ssa.Convert:
		fr.env[x] = m.convert(m.get(fr, x.X), x.X.Type(), x.Type())
	case *ssa.SliceToArrayPointer:
		s := m.get(fr, x.X).(Slice)
		n := int(x.Type().(*types.Pointer).Elem().Underlying().(*types.Array).Len())
		if s.Len < n {
			m.goPanic("slice to array pointer: length too short")
		}
		if s.A == nil {
			fr.env[x] = Ptr{}
			return
		}
		if s.Off == 0 && len(s.A.E) == n {
			fr.env[x] = Ptr{m.newCell(s.A)}
			return
		}
		unsupported("SliceToArrayPointer of a sub-slice")
	case *ssa.TypeAssert:
		fr.env[x] = m.typeAssert(x, m.get(fr, x.X))
	case *ssa.MakeClosure:
		cl := &Closure{Fn: x.Fn.(*ssa.Function)}
		for _, b := range x.Bindings {
			cl.Env = append(cl.Env, m.get(fr, b))
		}
		fr.env[x] = cl
	case *ssa.MakeSlice:
		l := m.get(fr, x.Len).(*Term)
		c := m.get(fr, x.Cap).(*Term)
		ln := m.concretize(l, 0, 1<<30, "make length")
		cp := ln
		if x.Cap != x.Len {
			cp = m.concretize(c, 0, 1<<30, "make capacity")
		}
		if ln < 0 || cp < ln {
			m.goPanic("makeslice: len out of range")
		}
		et := x.Type().Underlying().(*types.Slice).Elem()
		fr.env[x] = Slice{newArray(cp, et), 0, ln, cp}
	case *ssa.MakeMap:
		fr.env[x] = &Map{}
	case *ssa.MakeChan:
		m.chanID++
		fr.env[x] = &Chan{ID: m.chanID, Cap: int(m.get(fr, x.Size).(*Term).Int64()), Elem: x.Type().Underlying().(*types.Chan).Elem()}
	case *ssa.MapUpdate:
		mp := m.get(fr, x.Map).(*Map)
		if mp == nil {
			m.goPanic("assignment to entry in nil map")
		}
		m.accessMap(mp, true)
		k, v := m.get(fr, x.Key), m.get(fr, x.Value)
		for i, kk := range mp.K {
			if m.keyEq(kk, k) {
				storeInto(mp.V[i], v)
				return
			}
		}
		mp.K = append(mp.K, k)
		mp.V = append(mp.V, &Cell{V: copyVal(v)})
	case *ssa.Lookup:
		k := m.get(fr, x.Index)
		switch b := m.get(fr, x.X).(type) {
		case *Map:
			m.accessMap(b, false)
			var res Value = zero(x.X.Type().Underlying().(*types.Map).Elem())
			found := false
			if b != nil {
				for i, kk := range b.K {
					if m.keyEq(kk, k) {
						res, found = copyVal(b.V[i].V), true
						break
					}
				}
			}
			if x.CommaOk {
				fr.env[x] = Tuple{res, mkBool(found)}
			} else {
				fr.env[x] = res
			}
		case string:
			fr.env[x] = m.strIndex(b, k.(*Term))
		case SStr:
			fr.env[x] = b[m.idx(k.(*Term), len(b), "string index")]
		default:
			unsupported("Lookup on %T", b)
		}
	case *ssa.Slice:
		m.sliceOp(fr, x)
	case *ssa.Select:
		fr.env[x] = m.selectOp(fr, x)
	case *ssa.Send:
		ch := m.get(fr, x.Chan).(*Chan)
		m.chanSend(ch, m.get(fr, x.X))
	case *ssa.Range:
		switch b := m.get(fr, x.X).(type) {
		case *Map:
			it := &mapIter{}
			if b != nil {
				it.keys = append(it.keys, b.K...)
				for _, c := range b.V {
					it.vals = append(it.vals, copyVal(c.V))
				}
			}
			fr.env[x] = it
		case string, SStr:
			fr.env[x] = &mapIter{str: b}
		default:
			unsupported("range over %T", b)
		}
	case *ssa.Next:
		it := m.get(fr, x.Iter).(*mapIter)
		if x.IsString {
			fr.env[x] = m.nextRune(it)
			return
		}
		if it.i >= len(it.keys) {
			fr.env[x] = Tuple{tFalse, nil, nil}
			return
		}
		fr.env[x] = Tuple{tTrue, it.keys[it.i], it.vals[it.i]}
		it.i++
	case *ssa.DebugRef:
	default:
		unsupported("instruction %T in %s", in, fr.fn)
	}
}

func callName(cc *ssa.CallCommon) string {
	if f := cc.StaticCallee(); f != nil {
		return f.String()
	}
	return cc.Value.Name()
}

func fieldName(t types.Type, i int) string {
	if p, ok := t.Underlying().(*types.Pointer); ok {
		if s, ok := p.Elem().Underlying().(*types.Struct); ok && i < s.NumFields() {
			return s.Field(i).Name()
		}
	}
	return fmt.Sprint(i)
}

// nextRune iterates a string by rune. Symbolic bytes are restricted to ASCII here:
// the non-ASCII side is cut as outside the bound (recorded as an unsupported path).
func (m *Machine) nextRune(it *mapIter) Value {
	n := strLen(it.str)
	if it.pos >= n {
		return Tuple{tFalse, mkI(0, 64), mkI(0, 32)}
	}
	switch s := it.str.(type) {
	case string:
		for i, r := range s[it.pos:] {
			_ = i
			w := len(string(r))
			if r == 0xFFFD {
				w = 1
			}
			res := Tuple{tTrue, mkI(int64(it.pos), 64), mkI(int64(r), 32)}
			it.pos += w
			return res
		}
	case SStr:
		b := s[it.pos]
		if b.C != nil && b.C.Int64() >= 0x80 {
			unsupported("rune iteration over a non-ASCII byte in a symbolic string")
		}
		if b.C == nil {
			if !m.branch(tCmp("lt", b, mkU(0x80, 8), false)) {
				unsupported("rune iteration over a non-ASCII symbolic byte (outside the stated bound)")
			}
		}
		res := Tuple{tTrue, mkI(int64(it.pos), 64), m.resize(b, 8, false, 32, true)}
		it.pos++
		return res
	}
	return nil
}

// symIndex: for a symbolic index into an array of scalar terms with more candidates than the
// fork limit (or any table of constants), bounds-check once and return a SymPtr.
func (m *Machine) symIndex(i *Term, a *Array, off, n int) (SymPtr, bool) {
	if i.C != nil || a == nil || n <= 8 {
		return SymPtr{}, false
	}
	if _, _, ok := intInfo(a.Elem); !ok && !isBool(a.Elem) {
		return SymPtr{}, false
	}
	oob := tOr(tCmp("lt", i, mkI(0, i.W), true), tCmp("ge", i, mkI(int64(n), i.W), true))
	m.panicIf(oob, fmt.Sprintf("index out of range (symbolic) with length %d", n))
	return SymPtr{A: a, Off: off, Len: n, Idx: i}, true
}

// symLoad builds ite(idx==k, elem_k, ...) grouping equal constant elements.
func (m *Machine) symLoad(sp SymPtr) Value {
	lo, hi := 0, sp.Len-1
	if !bvMode {
		if sp.Idx.Lo != nil && sp.Idx.Lo.IsInt64() && int(sp.Idx.Lo.Int64()) > lo {
			lo = int(sp.Idx.Lo.Int64())
		}
		if sp.Idx.Hi != nil && sp.Idx.Hi.IsInt64() && int(sp.Idx.Hi.Int64()) < hi {
			hi = int(sp.Idx.Hi.Int64())
		}
	}
	var acc *Term
	// group by value string
	groups := map[string][]int{}
	var order []string
	vals := map[string]*Term{}
	for k := lo; k <= hi; k++ {
		t := sp.A.at(sp.Off + k).V.(*Term)
		if _, ok := groups[t.S]; !ok {
			order = append(order, t.S)
			vals[t.S] = t
		}
		groups[t.S] = append(groups[t.S], k)
	}
	// the largest group becomes the default
	def := order[0]
	for _, o := range order {
		if len(groups[o]) > len(groups[def]) {
			def = o
		}
	}
	acc = vals[def]
	for _, o := range order {
		if o == def {
			continue
		}
		cond := tFalse
		for _, k := range groups[o] {
			cond = tOr(cond, tEq(sp.Idx, mkI(int64(k), sp.Idx.W)))
		}
		acc = tIte(cond, vals[o], acc)
	}
	return m.nameTerm(acc)
}

func (m *Machine) strIndex(s string, i *Term) *Term {
	if i.C != nil {
		k := i.Int64()
		if k < 0 || k >= int64(len(s)) {
			m.goPanic("index out of range (string)")
		}
		return mkU(uint64(s[k]), 8)
	}
	// table lookup with a symbolic index: bounds check, then an ite chain over distinct byte values
	if len(s) > 8 {
		a := newArray(len(s), types.Typ[types.Uint8])
		for k := 0; k < len(s); k++ {
			a.E[k] = &Cell{V: mkU(uint64(s[k]), 8)}
		}
		if sp, ok := m.symIndex(i, a, 0, len(s)); ok {
			return m.symLoad(sp).(*Term)
		}
	}
	k := m.idx(i, len(s), "string index")
	return mkU(uint64(s[k]), 8)
}

// idx resolves an index into 0..n-1: concrete, or forks over feasible values; out of range is a panic.
func (m *Machine) idx(t *Term, n int, what string) int {
	if t.C != nil {
		i := t.val(true)
		if i.Sign() < 0 || i.Cmp(big.NewInt(int64(n))) >= 0 {
			m.goPanic(fmt.Sprintf("index out of range [%s] with length %d", i, n))
		}
		return int(i.Int64())
	}
	oob := tOr(tCmp("lt", t, mkI(0, t.W), true), tCmp("ge", t, mkI(int64(n), t.W), true))
	m.panicIf(oob, fmt.Sprintf("index out of range (symbolic) with length %d", n))
	if n == 0 {
		panic(pathEnd{"infeasible", "index into empty"})
	}
	return m.concretize(t, 0, n-1, what)
}

func (m *Machine) sliceOp(fr *frame, x *ssa.Slice) {
	ci := func(v ssa.Value, def int, max int) int {
		if v == nil {
			return def
		}
		t := m.get(fr, v).(*Term)
		if t.C != nil {
			return int(t.Int64())
		}
		oob := tOr(tCmp("lt", t, mkI(0, t.W), true), tCmp("gt", t, mkI(int64(max), t.W), true))
		m.panicIf(oob, "slice bounds out of range (symbolic)")
		return m.concretize(t, 0, max, "slice bound")
	}
	switch b := m.get(fr, x.X).(type) {
	case Slice:
		lo := ci(x.Low, 0, b.Cap)
		hi := ci(x.High, b.Len, b.Cap)
		mx := ci(x.Max, b.Cap, b.Cap)
		if lo < 0 || hi < lo || hi > b.Cap || mx > b.Cap || hi > mx {
			m.goPanic(fmt.Sprintf("slice bounds out of range [%d:%d] with capacity %d", lo, hi, b.Cap))
		}
		if b.A == nil {
			fr.env[x] = Slice{}
			return
		}
		fr.env[x] = Slice{b.A, b.Off + lo, hi - lo, mx - lo}
	case string:
		lo, hi := ci(x.Low, 0, len(b)), ci(x.High, len(b), len(b))
		if lo < 0 || hi < lo || hi > len(b) {
			m.goPanic(fmt.Sprintf("slice bounds out of range [%d:%d] with string length %d", lo, hi, len(b)))
		}
		fr.env[x] = b[lo:hi]
	case SStr:
		lo, hi := ci(x.Low, 0, len(b)), ci(x.High, len(b), len(b))
		if lo < 0 || hi < lo || hi > len(b) {
			m.goPanic(fmt.Sprintf("slice bounds out of range [%d:%d] with string length %d", lo, hi, len(b)))
		}
		fr.env[x] = normS(b[lo:hi])
	case Ptr:
		if b.C == nil {
			m.goPanic("nil pointer dereference (slice of array pointer)")
		}
		a := b.C.V.(*Array)
		lo, hi := ci(x.Low, 0, len(a.E)), ci(x.High, len(a.E), len(a.E))
		mx := ci(x.Max, len(a.E), len(a.E))
		if lo < 0 || hi < lo || hi > len(a.E) {
			m.goPanic("slice bounds out of range (array)")
		}
		fr.env[x] = Slice{a, lo, hi - lo, mx - lo}
	default:
		unsupported("slice of %T", b)
	}
}

func (m *Machine) typeAssert(x *ssa.TypeAssert, vv Value) Value {
	v, _ := vv.(Iface)
	ok := false
	if v.T != nil {
		if types.IsInterface(x.AssertedType) {
			ok = types.Implements(v.T, x.AssertedType.Underlying().(*types.Interface))
		} else {
			ok = types.Identical(v.T, x.AssertedType)
		}
	}
	var res Value
	if ok {
		if types.IsInterface(x.AssertedType) {
			res = v
		} else {
			res = v.V
		}
	} else {
		if !x.CommaOk {
			m.goPanic(fmt.Sprintf("interface conversion: %v is not %v", v.T, x.AssertedType))
		}
		res = zero(x.AssertedType)
	}
	if x.CommaOk {
		return Tuple{res, mkBool(ok)}
	}
	return res
}

func (m *Machine) keyEq(a, b Value) bool {
	switch x := a.(type) {
	case string:
		if y, ok := b.(string); ok {
			return x == y
		}
		return m.branch(strEq(asS(a), asS(b)))
	case SStr:
		return m.branch(strEq(x, asS(b)))
	case Ptr:
		return x.C == b.(Ptr).C
	case *Term:
		return m.branch(tEq(x, b.(*Term)))
	case Iface:
		y := b.(Iface)
		return m.branch(m.ifaceEq(x, y))
	case *Struct:
		y := b.(*Struct)
		for i := range x.F {
			if !m.keyEq(x.F[i].V, y.F[i].V) {
				return false
			}
		}
		return true
	case *Array:
		y := b.(*Array)
		for i := range x.E {
			if !m.keyEq(x.at(i).V, y.at(i).V) {
				return false
			}
		}
		return true
	case *Chan:
		return x == b.(*Chan)
	}
	unsupported("map key kind %T", a)
	return false
}

func (m *Machine) ifaceEq(x, y Iface) *Term {
	if x.T == nil || y.T == nil {
		return mkBool(x.T == nil && y.T == nil)
	}
	if !types.Identical(x.T, y.T) {
		return tFalse
	}
	return m.valEq(x.V, y.V)
}

func (m *Machine) valEq(a, b Value) *Term {
	switch x := a.(type) {
	case Ptr:
		return mkBool(x.C == b.(Ptr).C)
	case *Term:
		return tEq(x, b.(*Term))
	case string, SStr:
		return strEq(asS(a), asS(b))
	case *Chan:
		return mkBool(x == b.(*Chan))
	case *Struct:
		y := b.(*Struct)
		r := tTrue
		for i := range x.F {
			r = tAnd(r, m.valEq(x.F[i].V, y.F[i].V))
		}
		return r
	case *Array:
		y := b.(*Array)
		r := tTrue
		for i := range x.E {
			r = tAnd(r, m.valEq(x.at(i).V, y.at(i).V))
		}
		return r
	case Iface:
		return m.ifaceEq(x, b.(Iface))
	case *Closure:
		if x == nil || b.(*Closure) == nil {
			return mkBool(x == nil && b.(*Closure) == nil)
		}
	case *Map:
		if x == nil || b.(*Map) == nil {
			return mkBool(x == nil && b.(*Map) == nil)
		}
	}
	unsupported("equality on %T", a)
	return nil
}

// ---------- speculation (if-conversion of pure regions) ----------

type specRegion struct {
	ok bool
}

var pureCallees = map[string]bool{}

// speculate tries to evaluate both sides of a symbolic If without forking when the region
// between the If and its join block is a small tree of pure blocks. It returns the join
// block and the pseudo-predecessor to use for phis, after having bound the phis itself.
func (m *Machine) speculate(fr *frame, b *ssa.BasicBlock, c *Term) (*ssa.BasicBlock, *ssa.BasicBlock) {
	if noSpec {
		return nil, nil
	}
	type edge struct {
		pred *ssa.BasicBlock
		cond *Term
	}
	var join *ssa.BasicBlock
	var edges []edge
	budget := 12
	saved := map[ssa.Value]Value{}
	var walk func(from, blk *ssa.BasicBlock, cond *Term) bool
	walk = func(from, blk *ssa.BasicBlock, cond *Term) bool {
		if len(blk.Preds) > 1 {
			if join == nil {
				join = blk
			}
			if join != blk {
				return false
			}
			edges = append(edges, edge{from, cond})
			return true
		}
		budget--
		if budget < 0 {
			return false
		}
		for _, in := range blk.Instrs {
			switch x := in.(type) {
			case *ssa.Jump:
				return walk(blk, blk.Succs[0], cond)
			case *ssa.If:
				cc, ok := fr.env[x.Cond].(*Term)
				if !ok {
					if k, isC := x.Cond.(*ssa.Const); isC {
						cc = m.constVal(k).(*Term)
					} else {
						return false
					}
				}
				if cc.IsConst() {
					if cc.Bool() {
						return walk(blk, blk.Succs[0], cond)
					}
					return walk(blk, blk.Succs[1], cond)
				}
				return walk(blk, blk.Succs[0], tAnd(cond, cc)) && walk(blk, blk.Succs[1], tAnd(cond, tNot(cc)))
			default:
				if !m.pureExec(fr, in) {
					return false
				}
			}
		}
		return false
	}
	_ = saved
	ok := walk(b, b.Succs[0], c) && walk(b, b.Succs[1], tNot(c))
	if !ok || join == nil || len(edges) < 2 {
		return nil, nil
	}
	// bind phis of join
	var phis []*ssa.Phi
	for _, in := range join.Instrs {
		p, isPhi := in.(*ssa.Phi)
		if !isPhi {
			break
		}
		phis = append(phis, p)
	}
	vals := make([]Value, len(phis))
	for pi, p := range phis {
		var acc Value
		for ei := len(edges) - 1; ei >= 0; ei-- {
			e := edges[ei]
			var v Value
			found := false
			for i, pr := range join.Preds {
				if pr == e.pred {
					v = m.get(fr, p.Edges[i])
					found = true
					break
				}
			}
			if !found {
				return nil, nil
			}
			if acc == nil {
				acc = v
				continue
			}
			at, ok1 := acc.(*Term)
			vt, ok2 := v.(*Term)
			if ok1 && ok2 {
				acc = m.nameTerm(tIte(e.cond, vt, at))
				continue
			}
			if sameValue(acc, v) {
				continue
			}
			return nil, nil
		}
		vals[pi] = acc
	}
	for pi, p := range phis {
		fr.env[p] = vals[pi]
	}
	m.steps += len(phis)
	return join, specPred
}

var noSpec bool

// specPred is a marker predecessor: phis were already bound by speculate.
var specPred = &ssa.BasicBlock{}

func sameValue(a, b Value) bool {
	switch x := a.(type) {
	case Ptr:
		y, ok := b.(Ptr)
		return ok && x.C == y.C
	case string:
		y, ok := b.(string)
		return ok && x == y
	case *Term:
		y, ok := b.(*Term)
		return ok && x.S == y.S
	case Iface:
		y, ok := b.(Iface)
		if !ok {
			return false
		}
		if x.T == nil || y.T == nil {
			return x.T == nil && y.T == nil
		}
		return types.Identical(x.T, y.T) && sameValue(x.V, y.V)
	case *Closure:
		y, ok := b.(*Closure)
		return ok && x == y
	case *Chan:
		y, ok := b.(*Chan)
		return ok && x == y
	case *Map:
		y, ok := b.(*Map)
		return ok && x == y
	}
	return false
}

// pureExec evaluates an instruction if it is free of side effects, forks and panics.
func (m *Machine) pureExec(fr *frame, in ssa.Instruction) (ok bool) {
	defer func() {
		if r := recover(); r != nil {
			if _, isPE := r.(pathEnd); isPE {
				ok = false
				return
			}
			if _, isNP := r.(notPure); isNP {
				ok = false
				return
			}
			panic(r)
		}
	}()
	switch x := in.(type) {
	case *ssa.BinOp:
		a, b := m.get(fr, x.X), m.get(fr, x.Y)
		at, ok1 := a.(*Term)
		bt, ok2 := b.(*Term)
		if !ok1 || !ok2 {
			// pointer/nil comparisons etc. on concrete values are pure
			switch a.(type) {
			case Ptr, *Closure, *Chan, *Map, Slice:
				fr.env[x] = m.binop(x.Op, a, b, x.X.Type(), x.Y.Type())
				return true
			case string:
				if _, isS := b.(string); isS && (x.Op == token.EQL || x.Op == token.NEQ) {
					fr.env[x] = m.binop(x.Op, a, b, x.X.Type(), x.Y.Type())
					return true
				}
			}
			return false
		}
		switch x.Op {
		case token.EQL, token.NEQ, token.LSS, token.LEQ, token.GTR, token.GEQ:
			fr.env[x] = m.binop(x.Op, at, bt, x.X.Type(), x.Y.Type())
			return true
		case token.ADD, token.SUB, token.MUL, token.AND, token.OR:
			if at.K == KBool || bvMode || at.K == KFP {
				if at.K == KFP {
					return false
				}
				fr.env[x] = m.binop(x.Op, at, bt, x.X.Type(), x.Y.Type())
				return true
			}
			// int mode: only when the result provably stays in range (no wrap fork)
			w, signed, _ := intInfo(x.X.Type())
			var r *Term
			switch x.Op {
			case token.ADD:
				r = rawAdd(at, bt)
			case token.SUB:
				r = rawSub(at, bt)
			case token.MUL:
				r = rawMul(at, bt)
			default:
				return false
			}
			lo, hi := typeRange(w, signed)
			if r.Lo == nil || r.Hi == nil || r.Lo.Cmp(lo) < 0 || r.Hi.Cmp(hi) > 0 {
				return false
			}
			fr.env[x] = r
			return true
		}
		return false
	case *ssa.UnOp:
		switch x.Op {
		case token.NOT:
			fr.env[x] = tNot(m.get(fr, x.X).(*Term))
			return true
		case token.MUL:
			p := m.get(fr, x.X).(Ptr)
			if p.C == nil {
				return false
			}
			fr.env[x] = copyVal(p.C.V)
			return true
		}
		return false
	case *ssa.FieldAddr:
		p := m.get(fr, x.X).(Ptr)
		if p.C == nil {
			return false
		}
		fr.env[x] = Ptr{p.C.V.(*Struct).F[x.Field]}
		return true
	case *ssa.Field:
		fr.env[x] = copyVal(m.get(fr, x.X).(*Struct).F[x.Field].V)
		return true
	case *ssa.IndexAddr:
		i := m.get(fr, x.Index).(*Term)
		if i.C == nil {
			return false
		}
		switch b := m.get(fr, x.X).(type) {
		case Slice:
			k := int(i.Int64())
			if k < 0 || k >= b.Len {
				return false
			}
			fr.env[x] = Ptr{b.A.at(b.Off + k)}
			return true
		}
		return false
	case *ssa.Extract:
		fr.env[x] = m.get(fr, x.Tuple).(Tuple)[x.Index]
		return true
	case *ssa.ChangeType:
		fr.env[x] = m.get(fr, x.X)
		return true
	case *ssa.Convert:
		v := m.get(fr, x.X)
		t, isT := v.(*Term)
		if !isT || t.K != KInt {
			return false
		}
		fw, fs, ok1 := intInfo(x.X.Type())
		tw, ts, ok2 := intInfo(x.Type())
		if !ok1 || !ok2 {
			return false
		}
		if bvMode {
			fr.env[x] = bvResize(t, fw, tw, fs)
			return true
		}
		lo, hi := typeRange(tw, ts)
		if t.Lo == nil || t.Hi == nil || t.Lo.Cmp(lo) < 0 || t.Hi.Cmp(hi) > 0 {
			return false
		}
		c := *t
		c.W = tw
		fr.env[x] = &c
		return true
	case *ssa.Call:
		// calls to side-effect-free harness helpers / len
		if bi, isB := x.Call.Value.(*ssa.Builtin); isB && (bi.Name() == "len" || bi.Name() == "cap") {
			fr.env[x] = m.builtin(bi, x.Common(), []Value{m.get(fr, x.Call.Args[0])})
			return true
		}
		return false
	case *ssa.DebugRef:
		return true
	}
	return false
}

type notPure struct{}

func hasPrefixAny(s string, ps ...string) bool {
	for _, p := range ps {
		if strings.HasPrefix(s, p) {
			return true
		}
	}
	return false
}

// refine tightens the interval of an SSA operand after a branch on (operand op constant) was
// taken: the comparison is a fact for the rest of this path (SSA values are immutable).
func (m *Machine) refine(fr *frame, cond ssa.Value, taken bool) {
	if bvMode {
		return
	}
	bo, ok := cond.(*ssa.BinOp)
	if !ok {
		if u, isU := cond.(*ssa.UnOp); isU && u.Op == token.NOT {
			m.refine(fr, u.X, !taken)
		}
		return
	}
	op := bo.Op
	var v ssa.Value
	var k *big.Int
	_, signed, isInt := intInfo(bo.X.Type())
	if !isInt {
		return
	}
	constOf := func(x ssa.Value) *big.Int {
		if c, isC := x.(*ssa.Const); isC {
			if t, isT := m.constVal(c).(*Term); isT && t.C != nil {
				return t.C
			}
			return nil
		}
		if t, isT := fr.env[x].(*Term); isT && t.C != nil {
			return t.C
		}
		return nil
	}
	if c := constOf(bo.Y); c != nil {
		v, k = bo.X, c
	} else if c := constOf(bo.X); c != nil {
		v, k = bo.Y, c
		// mirror the operator
		switch op {
		case token.LSS:
			op = token.GTR
		case token.LEQ:
			op = token.GEQ
		case token.GTR:
			op = token.LSS
		case token.GEQ:
			op = token.LEQ
		}
	} else {
		return
	}
	_ = signed
	t, isT := fr.env[v].(*Term)
	if !isT || t.C != nil || t.K != KInt {
		return
	}
	if !taken {
		switch op {
		case token.LSS:
			op = token.GEQ
		case token.LEQ:
			op = token.GTR
		case token.GTR:
			op = token.LEQ
		case token.GEQ:
			op = token.LSS
		case token.EQL:
			op = token.NEQ
		case token.NEQ:
			op = token.EQL
		}
	}
	lo, hi := t.Lo, t.Hi
	switch op {
	case token.LSS:
		hi = minNil(hi, new(big.Int).Sub(k, big1))
	case token.LEQ:
		hi = minNil(hi, k)
	case token.GTR:
		lo = maxNil(lo, new(big.Int).Add(k, big1))
	case token.GEQ:
		lo = maxNil(lo, k)
	case token.EQL:
		lo, hi = k, k
	default:
		return
	}
	c := *t
	c.Lo, c.Hi = lo, hi
	fr.env[v] = &c
}
